"""E4/E5 core - a substitution-based constant/copy propagation over one function ("partial
evaluation" of the *analysed source text*, nothing of the repository is executed).

The walker visits the statements of a function once in source order (loop bodies twice, to reach
the fixpoint of loop-carried copies), keeps an environment  local name -> expression over
 * entry parameters            ($p_<name>)
 * allocation / call sites     ($v<k>, k numbered per call node)  -> self.sites[k] = the call
 * alternatives                $phi(e1, e2, ...)
and records every call it passes as an Event (callee text, substituted arguments, the guards under
which it is reached).  Branch conditions that become decidable after substitution (e.g.
`type(inputType) is tuple` for a literal tuple argument, `value is None` for a missing argument)
prune the dead arm: this is classical conditional constant propagation.  Undecidable branches are
both walked and joined with $phi.  Calls to `self.<method>` helpers, `super().__init__` and small
package-level helper functions are inlined up to a stated depth.
"""
from __future__ import annotations

import ast
import copy
from dataclasses import dataclass, field
from typing import Dict, List, Optional, Tuple

from .astutil import u, block_always_exits, block_always_raises
from .model import AnalysisError, ClassInfo, FuncInfo, Model

PARAM = "$p_"
MAX_INLINE_DEPTH = 4
PURE_BUILTINS = {
    "type", "len", "isinstance", "cast", "list", "tuple", "set", "frozenset", "dict", "str", "int", "bool", "min", "max",
    "range", "reversed", "enumerate", "zip", "sorted", "any", "all", "getattr", "hasattr", "id", "repr", "sum", "abs",
    "issubclass", "callable", "iter", "next", "bytes", "bytearray", "hex", "ord", "chr", "divmod", "round", "filter", "map",
}
NO_INLINE = {"require_type", "verifyProgramVersion", "verifyFieldVersion", "types_match"}


def clone(node):
    """structural copy of an AST (fields and positions only - never the .parent back pointers)"""
    if isinstance(node, list):
        return [clone(x) for x in node]
    if not isinstance(node, ast.AST):
        return node
    new = node.__class__.__new__(node.__class__)
    for f in node._fields:
        if hasattr(node, f):
            setattr(new, f, clone(getattr(node, f)))
    for a in ("lineno", "col_offset", "end_lineno", "end_col_offset"):
        if hasattr(node, a):
            setattr(new, a, getattr(node, a))
    return new


def P(name: str) -> ast.Name:
    return ast.Name(id=PARAM + name, ctx=ast.Load())


def is_param(e: ast.AST) -> Optional[str]:
    if isinstance(e, ast.Name) and e.id.startswith(PARAM):
        return e.id[len(PARAM):]
    return None


def phi(vals: List[ast.AST]) -> ast.AST:
    flat: List[ast.AST] = []
    seen = set()
    for v in vals:
        alts = v.args if is_phi(v) else [v]
        for a in alts:
            k = ast.dump(a)
            if k not in seen:
                seen.add(k)
                flat.append(a)
    if len(flat) == 1:
        return flat[0]
    return ast.Call(func=ast.Name(id="$phi", ctx=ast.Load()), args=flat, keywords=[])


def is_phi(e: ast.AST) -> bool:
    return isinstance(e, ast.Call) and isinstance(e.func, ast.Name) and e.func.id == "$phi"


def alts(e: ast.AST) -> List[ast.AST]:
    return list(e.args) if is_phi(e) else [e]


NONE = ast.Constant(value=None)
UNDEF = ast.Name(id="$undef", ctx=ast.Load())


@dataclass
class Event:
    name: str  # callee text after substitution of the receiver, e.g. 'require_type', '$v3.setNextBlock'
    call: ast.Call  # substituted call
    guards: List[Tuple[ast.AST, bool]]
    func: FuncInfo  # function whose text contains the call
    node: ast.Call  # original node (for file:line)
    site: Optional[int] = None

    @property
    def where(self) -> str:
        return f"{self.func.module.rel}:{self.node.lineno}"

    @property
    def short(self) -> str:
        return self.name.split(".")[-1]


@dataclass
class Result:
    events: List[Event] = field(default_factory=list)
    returns: List[Tuple[ast.AST, List[Tuple[ast.AST, bool]]]] = field(default_factory=list)
    attrs: Dict[str, ast.AST] = field(default_factory=dict)
    raises: List[Tuple[ast.AST, List[Tuple[ast.AST, bool]], ast.Raise]] = field(default_factory=list)
    sites: Dict[int, ast.AST] = field(default_factory=dict)
    site_nodes: Dict[int, ast.AST] = field(default_factory=dict)
    closures: Dict[str, tuple] = field(default_factory=dict)  # '$closure_k' -> (FunctionDef, env snapshot, FuncInfo)
    guards_at_end: list = field(default_factory=list)
    ended_by_raise: bool = False

    def ret_value(self) -> ast.AST:
        if not self.returns:
            return NONE
        return phi([r for r, _ in self.returns])

    def calls(self, *short_names: str) -> List[Event]:
        return [e for e in self.events if e.short in short_names or e.name in short_names]


class Subst(ast.NodeTransformer):
    def __init__(self, env, attrs, selfname):
        self.env = env
        self.attrs = attrs
        self.selfname = selfname
        self.shadow: List[set] = []

    def _shadowed(self, name):
        return any(name in s for s in self.shadow)

    def visit_Name(self, node):
        if isinstance(node.ctx, ast.Load) and not self._shadowed(node.id) and node.id in self.env:
            return clone(self.env[node.id])
        return node

    def visit_Attribute(self, node):
        if (
            self.selfname
            and isinstance(node.value, ast.Name)
            and node.value.id == self.selfname
            and not self._shadowed(self.selfname)
        ):
            if node.attr in self.attrs:
                return clone(self.attrs[node.attr])
            return node
        return ast.Attribute(value=self.visit(node.value), attr=node.attr, ctx=node.ctx)

    def _comp(self, node):
        names = set()
        for g in node.generators:
            for n in ast.walk(g.target):
                if isinstance(n, ast.Name):
                    names.add(n.id)
        # iterables are evaluated in the outer scope (first one), keep it simple: substitute iters first
        new_gens = []
        self.shadow.append(set())
        for g in node.generators:
            it = self.visit(clone(g.iter))
            for n in ast.walk(g.target):
                if isinstance(n, ast.Name):
                    self.shadow[-1].add(n.id)
            ifs = [self.visit(clone(i)) for i in g.ifs]
            new_gens.append(ast.comprehension(target=g.target, iter=it, ifs=ifs, is_async=g.is_async))
        res = copy.copy(node)
        res.generators = new_gens
        if isinstance(node, ast.DictComp):
            res.key = self.visit(clone(node.key))
            res.value = self.visit(clone(node.value))
        else:
            res.elt = self.visit(clone(node.elt))
        self.shadow.pop()
        return res

    visit_ListComp = _comp
    visit_SetComp = _comp
    visit_GeneratorExp = _comp
    visit_DictComp = _comp

    def visit_Lambda(self, node):
        names = {a.arg for a in node.args.args + node.args.kwonlyargs + node.args.posonlyargs}
        if node.args.vararg:
            names.add(node.args.vararg.arg)
        self.shadow.append(names)
        res = ast.Lambda(args=node.args, body=self.visit(clone(node.body)))
        self.shadow.pop()
        return res


def simp(e: ast.AST) -> ast.AST:
    """bottom-up simplification of the decidable forms"""

    class S(ast.NodeTransformer):
        def generic_visit(self, node):
            node = super().generic_visit(node)
            return simp1(node)

    return S().visit(e)


def _const_truth(e) -> Optional[bool]:
    if isinstance(e, ast.Constant):
        return bool(e.value)
    if isinstance(e, (ast.List, ast.Tuple, ast.Dict, ast.Set)):
        n = len(e.elts) if not isinstance(e, ast.Dict) else len(e.keys)
        if not any(isinstance(x, ast.Starred) for x in getattr(e, "elts", [])):
            return n > 0
    return None


def _is_definitely_not_none(e) -> bool:
    if isinstance(e, ast.Constant):
        return e.value is not None
    if isinstance(e, (ast.List, ast.Tuple, ast.Dict, ast.Set, ast.Lambda, ast.JoinedStr, ast.ListComp)):
        return True
    if isinstance(e, ast.Attribute) and isinstance(e.value, ast.Name) and e.value.id in ("Op", "TealType", "TxnField", "Mode"):
        return True
    return False


def simp1(node: ast.AST) -> ast.AST:
    if isinstance(node, ast.Call):
        f = node.func
        if isinstance(f, ast.Name) and f.id == "cast" and len(node.args) == 2:
            return node.args[1]
        if isinstance(f, ast.Name) and f.id == "len" and len(node.args) == 1 and isinstance(node.args[0], (ast.List, ast.Tuple)):
            if not any(isinstance(x, ast.Starred) for x in node.args[0].elts):
                return ast.Constant(value=len(node.args[0].elts))
        if isinstance(f, ast.Name) and f.id == "list" and len(node.args) == 1 and isinstance(node.args[0], (ast.List, ast.Tuple)):
            return ast.List(elts=list(node.args[0].elts), ctx=ast.Load())
        if isinstance(f, ast.Name) and f.id == "isinstance" and len(node.args) == 2:
            x, t = node.args
            tn = u(t)
            if isinstance(x, ast.List):
                return ast.Constant(value=(tn == "list" or "list" in tn.split(", ")))
            if isinstance(x, ast.Tuple) and tn in ("list", "tuple"):
                return ast.Constant(value=tn == "tuple")
            if isinstance(x, ast.Constant) and x.value is None:
                return ast.Constant(value=False)
            if isinstance(x, ast.Constant) and isinstance(x.value, int) and not isinstance(x.value, bool) and tn == "int":
                return ast.Constant(value=True)
        return node
    if isinstance(node, ast.BinOp) and isinstance(node.op, ast.Add) and isinstance(node.left, ast.List) and isinstance(node.right, ast.List):
        return ast.List(elts=list(node.left.elts) + list(node.right.elts), ctx=ast.Load())
    if isinstance(node, ast.Subscript):
        v, s = node.value, node.slice
        if isinstance(v, ast.BinOp) and isinstance(v.op, ast.Add) and isinstance(v.left, ast.List) and isinstance(s, ast.Constant) and isinstance(s.value, int):
            if 0 <= s.value < len(v.left.elts) and not any(isinstance(x, ast.Starred) for x in v.left.elts):
                return v.left.elts[s.value]
        if isinstance(v, (ast.Tuple, ast.List)) and isinstance(s, ast.Constant) and isinstance(s.value, int):
            if not any(isinstance(x, ast.Starred) for x in v.elts) and -len(v.elts) <= s.value < len(v.elts):
                return v.elts[s.value]
        return node
    if isinstance(node, ast.Compare) and len(node.ops) == 1:
        a, op, b = node.left, node.ops[0], node.comparators[0]
        if isinstance(op, (ast.Is, ast.IsNot)):
            want_is = isinstance(op, ast.Is)
            if isinstance(b, ast.Constant) and b.value is None:
                if isinstance(a, ast.Constant) and a.value is None:
                    return ast.Constant(value=want_is)
                if _is_definitely_not_none(a):
                    return ast.Constant(value=not want_is)
            # type(x) is tuple
            if isinstance(a, ast.Call) and isinstance(a.func, ast.Name) and a.func.id == "type" and len(a.args) == 1 and isinstance(b, ast.Name):
                x = a.args[0]
                kind = None
                if isinstance(x, ast.Tuple):
                    kind = "tuple"
                elif isinstance(x, ast.List):
                    kind = "list"
                elif isinstance(x, ast.Constant) and x.value is not None:
                    kind = type(x.value).__name__
                elif isinstance(x, ast.Attribute) and isinstance(x.value, ast.Name) and x.value.id in ("TealType", "Op"):
                    kind = x.value.id
                if kind is not None:
                    return ast.Constant(value=(kind == b.id) == want_is)
            return node
        if isinstance(a, ast.Constant) and isinstance(b, ast.Constant) and not isinstance(op, (ast.In, ast.NotIn)):
            try:
                r = {
                    ast.Eq: lambda: a.value == b.value,
                    ast.NotEq: lambda: a.value != b.value,
                    ast.Lt: lambda: a.value < b.value,
                    ast.LtE: lambda: a.value <= b.value,
                    ast.Gt: lambda: a.value > b.value,
                    ast.GtE: lambda: a.value >= b.value,
                }[type(op)]()
                return ast.Constant(value=r)
            except Exception:
                return node
        if isinstance(op, (ast.Eq, ast.NotEq)):
            # Op.x == Op.y, TealType.a == TealType.b: enum members compare by identity of name
            ta, tb = u(a), u(b)
            enumish = lambda e: isinstance(e, ast.Attribute) and isinstance(e.value, ast.Name) and e.value.id in ("Op", "TealType", "Mode")
            if enumish(a) and enumish(b):
                return ast.Constant(value=(ta == tb) == isinstance(op, ast.Eq))
        return node
    if isinstance(node, ast.UnaryOp) and isinstance(node.op, ast.Not):
        t = _const_truth(node.operand)
        if t is not None and isinstance(node.operand, ast.Constant):
            return ast.Constant(value=not t)
        return node
    if isinstance(node, ast.BoolOp):
        is_and = isinstance(node.op, ast.And)
        vals = []
        for v in node.values:
            t = _const_truth(v) if isinstance(v, ast.Constant) else None
            if t is None:
                vals.append(v)
                continue
            if (is_and and not t) or ((not is_and) and t):
                vals.append(v)  # short-circuit value
                break
            # neutral element: drop
        if not vals:
            return ast.Constant(value=is_and)
        if len(vals) == 1:
            return vals[0]
        return ast.BoolOp(op=node.op, values=vals)
    if isinstance(node, ast.IfExp):
        t = decide(node.test)
        if t is True:
            return node.body
        if t is False:
            return node.orelse
        return node
    if isinstance(node, ast.BinOp) and isinstance(node.left, ast.Constant) and isinstance(node.right, ast.Constant):
        try:
            a, b = node.left.value, node.right.value
            if isinstance(a, (int, str, bytes)) and isinstance(b, (int, str, bytes)) and not isinstance(a, bool) and not isinstance(b, bool):
                r = {
                    ast.Add: lambda: a + b,
                    ast.Sub: lambda: a - b,
                    ast.Mult: lambda: a * b,
                    ast.Pow: lambda: a**b if isinstance(b, int) and abs(b) < 512 else None,
                    ast.FloorDiv: lambda: a // b,
                    ast.Mod: lambda: a % b if isinstance(a, int) else None,
                }.get(type(node.op), lambda: None)()
                if r is not None:
                    return ast.Constant(value=r)
        except Exception:
            pass
        return node
    return node


_FLIP = {ast.IsNot: ast.Is, ast.NotEq: ast.Eq, ast.NotIn: ast.In, ast.GtE: ast.Lt, ast.LtE: ast.Gt}


def canon_test(t: ast.AST) -> Tuple[str, bool]:
    """(canonical atom, polarity): `a is not b` = not `a is b`, `a >= b` = not `a < b`, ..."""
    pol = True
    while isinstance(t, ast.UnaryOp) and isinstance(t.op, ast.Not):
        t, pol = t.operand, not pol
    if isinstance(t, ast.Compare) and len(t.ops) == 1 and type(t.ops[0]) in _FLIP:
        t = ast.Compare(left=t.left, ops=[_FLIP[type(t.ops[0])]()], comparators=t.comparators)
        pol = not pol
    return ast.dump(t), pol


def _kind_test(t: ast.AST):
    """(subject dump, 'int'|'Expr', polarity) for type(x) is int / isinstance(x, int) / isinstance(x, Expr)"""
    pol = True
    while isinstance(t, ast.UnaryOp) and isinstance(t.op, ast.Not):
        t, pol = t.operand, not pol
    if isinstance(t, ast.Compare) and len(t.ops) == 1 and isinstance(t.ops[0], (ast.Is, ast.IsNot)):
        a, b = t.left, t.comparators[0]
        if isinstance(a, ast.Call) and isinstance(a.func, ast.Name) and a.func.id == "type" and len(a.args) == 1 and isinstance(b, ast.Name) and b.id == "int":
            return ast.dump(a.args[0]), "int", pol == isinstance(t.ops[0], ast.Is)
    if isinstance(t, ast.Call) and isinstance(t.func, ast.Name) and t.func.id == "isinstance" and len(t.args) == 2 and isinstance(t.args[1], ast.Name):
        if t.args[1].id == "int":
            return ast.dump(t.args[0]), "int", pol
        if t.args[1].id == "Expr":
            return ast.dump(t.args[0]), "Expr", pol
    return None


def decide(test: ast.AST) -> Optional[bool]:
    if isinstance(test, ast.Constant):
        return bool(test.value)
    if isinstance(test, ast.UnaryOp) and isinstance(test.op, ast.Not):
        d = decide(test.operand)
        return None if d is None else (not d)
    if isinstance(test, (ast.List, ast.Tuple)):
        return _const_truth(test)
    if isinstance(test, ast.BoolOp):
        ds = [decide(v) for v in test.values]
        if isinstance(test.op, ast.And):
            if any(d is False for d in ds):
                return False
            if all(d is True for d in ds):
                return True
        else:
            if any(d is True for d in ds):
                return True
            if all(d is False for d in ds):
                return False
    return None


class PE:
    def __init__(self, model: Model, inline_helpers: bool = True):
        self.model = model
        self.inline_helpers = inline_helpers
        self._site_ids: Dict[tuple, int] = {}
        self.path_mode = False
        self._prefix: List[bool] = []
        self._cursor = 0
        self._taken: List[bool] = []
        self._pending: List[List[bool]] = []

    # ------------------------------------------------------------------ binding
    def bind(self, f: FuncInfo, call_args: List[ast.AST], call_kws: List[ast.keyword], skip_first: bool) -> Dict[str, ast.AST]:
        a = f.node.args
        params = [x.arg for x in a.posonlyargs + a.args]
        defaults = [None] * (len(params) - len(a.defaults)) + list(a.defaults)
        if skip_first and params:
            params, defaults = params[1:], defaults[1:]
        env: Dict[str, ast.AST] = {}
        pos = list(call_args)
        star_at = None
        for i, x in enumerate(pos):
            if isinstance(x, ast.Starred):
                star_at = i
                break
        if star_at is not None:
            fixed = pos[:star_at]
        else:
            fixed = pos
        for p_, v in zip(params, fixed):
            env[p_] = v
        extra = fixed[len(params):]
        if a.vararg:
            rest = list(extra) + (pos[star_at:] if star_at is not None else [])
            env[a.vararg.arg] = ast.Tuple(elts=rest, ctx=ast.Load())
        elif star_at is not None:
            # positional star into fixed params: unknown
            for p_ in params[len(fixed):]:
                env.setdefault(p_, ast.Name(id="$unknown", ctx=ast.Load()))
        for kw in call_kws:
            if kw.arg is not None:
                env[kw.arg] = kw.value
        for p_, d in zip(params, defaults):
            if p_ not in env and d is not None:
                env[p_] = clone(d)
        for kwp, d in zip(a.kwonlyargs, a.kw_defaults):
            if kwp.arg not in env and d is not None:
                env[kwp.arg] = clone(d)
        for p_ in params + [k.arg for k in a.kwonlyargs]:
            env.setdefault(p_, ast.Name(id="$unbound_" + p_, ctx=ast.Load()))
        return env

    def symbolic_env(self, f: FuncInfo, skip_first: bool) -> Dict[str, ast.AST]:
        a = f.node.args
        params = [x.arg for x in a.posonlyargs + a.args]
        if skip_first and params:
            params = params[1:]
        env = {p_: P(p_) for p_ in params}
        if a.vararg:
            env[a.vararg.arg] = P("*" + a.vararg.arg)
        for k in a.kwonlyargs:
            env[k.arg] = P(k.arg)
        if a.kwarg:
            env[a.kwarg.arg] = P("**" + a.kwarg.arg)
        return env

    # ------------------------------------------------------------------ running
    def run(self, f: FuncInfo, env: Dict[str, ast.AST], attrs: Optional[Dict[str, ast.AST]] = None, self_cls: Optional[ClassInfo] = None, depth: int = 0, result: Optional[Result] = None, guards=None) -> Result:
        res = result if result is not None else Result()
        if attrs is not None:
            res.attrs = attrs
        w = _Walker(self, f, res, self_cls, depth)
        params = f.node.args.posonlyargs + f.node.args.args
        w.selfname = params[0].arg if (f.cls is not None and params and "staticmethod" not in f.decorators()) else None
        if w.selfname and "classmethod" in f.decorators():
            w.clsname, w.selfname = w.selfname, None
        w.env = dict(env)
        w.guards = list(guards or [])
        n_raise = len(res.raises)
        w.block(f.node.body)
        res.guards_at_end = list(w.guards)
        # the walk ended in a raise statement reached unconditionally on this path
        res.ended_by_raise = w.dead and len(res.raises) > n_raise and w.last_exit == "raise"
        return res

    # ------------------------------------------------------------------ path-sensitive mode
    def run_paths(self, f: FuncInfo, env: Dict[str, ast.AST], attrs: Optional[Dict[str, ast.AST]] = None, self_cls: Optional[ClassInfo] = None, seed: Optional[Result] = None, max_paths: int = 96, guards=None) -> List[Result]:
        """Enumerate the paths through f (and the helpers inlined into it) that differ in the
        outcome of undecidable branch tests outside loops; one Result per path, whose guards are
        the path condition.  A test repeated on a path is decided by the path condition.
        Falls back to the joining walk when there are more than max_paths paths."""
        results: List[Result] = []
        work: List[List[bool]] = [[]]
        while work:
            prefix = work.pop()
            self._prefix, self._cursor, self._taken, self._pending = prefix, 0, [], []
            self.path_mode = True
            try:
                r = Result()
                if seed is not None:
                    r.sites.update(seed.sites)
                    r.closures.update(seed.closures)
                res = self.run(f, dict(env), attrs=dict(attrs) if attrs is not None else None, self_cls=self_cls, result=r, guards=guards)
            finally:
                self.path_mode = False
            results.append(res)
            work.extend(self._pending)
            if len(results) + len(work) > max_paths:
                r = Result()
                if seed is not None:
                    r.sites.update(seed.sites)
                    r.closures.update(seed.closures)
                return [self.run(f, dict(env), attrs=dict(attrs) if attrs is not None else None, self_cls=self_cls, result=r, guards=guards)]
        return results

    def choose(self) -> bool:
        if self._cursor < len(self._prefix):
            d = self._prefix[self._cursor]
        else:
            d = True
            self._pending.append(self._taken + [False])
        self._cursor += 1
        self._taken.append(d)
        return d

    def site_id(self, node: ast.AST, f: FuncInfo, ctx_key: str) -> int:
        key = (node.lineno, node.col_offset, getattr(node, 'end_lineno', 0), getattr(node, 'end_col_offset', 0), f.fq + "|" + ctx_key)
        if key not in self._site_ids:
            self._site_ids[key] = len(self._site_ids)
        return self._site_ids[key]


class _Walker:
    def __init__(self, pe: PE, f: FuncInfo, res: Result, self_cls, depth):
        self.pe = pe
        self.f = f
        self.res = res
        self.self_cls = self_cls or f.cls
        self.depth = depth
        self.env: Dict[str, ast.AST] = {}
        self.guards: List[Tuple[ast.AST, bool]] = []
        self.selfname: Optional[str] = None
        self.clsname: Optional[str] = None
        self.closures: Dict[str, ast.AST] = {}
        self.assign_depth: Dict[str, int] = {}
        self.loop_depth = 0
        self.last_exit = None
        self.dead = False
        self.ctx_key = ""

    # -- expressions ------------------------------------------------------------------
    def sub(self, e: ast.AST) -> ast.AST:
        s = Subst(self.env, self.res.attrs, self.selfname)
        out = s.visit(clone(e))
        return simp(out)

    def eval(self, e: ast.AST, bind_site: bool = True) -> ast.AST:
        """substitute, record the calls inside (inner first), name call results by site"""
        return self._eval(e, bind_site)

    def _eval(self, e: ast.AST, top_site: bool) -> ast.AST:
        # evaluate sub-expressions that are calls first so they are recorded in evaluation order
        if isinstance(e, ast.Call):
            return self._call(e, top_site)
        if isinstance(e, ast.IfExp):
            t = self.sub(e.test)
            d = decide(t)
            self._record_calls_in(e.test)
            if d is None:
                d = self._path_decide(t)
            if d is True:
                return self._eval(e.body, top_site)
            if d is False:
                return self._eval(e.orelse, top_site)
            self.guards.append((t, True))
            a = self._eval(e.body, top_site)
            self.guards.pop()
            self.guards.append((t, False))
            b = self._eval(e.orelse, top_site)
            self.guards.pop()
            return phi([a, b])
        if isinstance(e, (ast.Tuple, ast.List)):
            elts = []
            for x in e.elts:
                if isinstance(x, ast.Starred):
                    v = self._eval(x.value, True)
                    if isinstance(v, (ast.Tuple, ast.List)) and not any(isinstance(y, ast.Starred) for y in v.elts):
                        elts.extend(v.elts)
                    else:
                        elts.append(ast.Starred(value=v, ctx=ast.Load()))
                else:
                    elts.append(self._eval(x, True))
            return type(e)(elts=elts, ctx=ast.Load())
        if isinstance(e, ast.NamedExpr):
            v = self._eval(e.value, True)
            self.env[e.target.id] = v
            return v
        if isinstance(e, (ast.ListComp, ast.SetComp, ast.GeneratorExp, ast.DictComp, ast.Lambda)):
            self._record_calls_in(e, inside_comp=True)
            return self.sub(e)
        # generic: record nested calls, then substitute
        has_call = any(isinstance(n, ast.Call) for n in ast.walk(e))
        if not has_call:
            return self.sub(e)
        # rebuild with evaluated children
        new = copy.copy(e)
        for fld, val in ast.iter_fields(e):
            if isinstance(val, ast.AST) and isinstance(val, ast.expr):
                setattr(new, fld, self._eval(val, True))
            elif isinstance(val, list):
                setattr(new, fld, [self._eval(x, True) if isinstance(x, ast.expr) else x for x in val])
        return simp(new)

    def _record_calls_in(self, e: ast.AST, inside_comp: bool = False):
        for n in ast.walk(e):
            if isinstance(n, ast.Call):
                try:
                    sc = self.sub(n)
                except Exception:
                    continue
                if isinstance(sc, ast.Call):
                    g = list(self.guards)
                    if inside_comp:
                        g = g + [(ast.Name(id="$in_comprehension", ctx=ast.Load()), True)]
                    self.res.events.append(Event(u(sc.func), sc, g, self.f, n))

    def _call(self, e: ast.Call, top_site: bool) -> ast.AST:
        func = e.func
        # receiver / function expression
        if isinstance(func, ast.Attribute) and isinstance(func.value, ast.Name) and func.value.id == self.selfname and func.attr in self.res.attrs:
            fexpr = clone(self.res.attrs[func.attr])  # a callable stored on the instance (lambda / closure)
        elif isinstance(func, ast.Attribute):
            recv = self._eval(func.value, True)
            fexpr = ast.Attribute(value=recv, attr=func.attr, ctx=ast.Load())
        else:
            fexpr = self.sub(func)
        args = []
        for a in e.args:
            if isinstance(a, ast.Starred):
                v = self._eval(a.value, True)
                if isinstance(v, (ast.Tuple, ast.List)) and not any(isinstance(y, ast.Starred) for y in v.elts):
                    args.extend(v.elts)
                else:
                    args.append(ast.Starred(value=v, ctx=ast.Load()))
            else:
                args.append(self._eval(a, True))
        kws = [ast.keyword(arg=k.arg, value=self._eval(k.value, True)) for k in e.keywords]
        sc = ast.Call(func=fexpr, args=args, keywords=kws)
        sc = simp1(sc)
        if not isinstance(sc, ast.Call) or is_phi(sc):
            return sc
        # x.append(v) / x.extend([...]) on a local bound to a literal list: update the binding
        if isinstance(func, ast.Attribute) and isinstance(func.value, ast.Name) and func.attr in ("append", "extend") and len(args) == 1:
            cur = self.env.get(func.value.id)
            if isinstance(cur, ast.List) or (is_phi(cur) and all(isinstance(a, ast.List) for a in alts(cur))):
                add = [args[0]] if func.attr == "append" else (list(args[0].elts) if isinstance(args[0], (ast.List, ast.Tuple)) else [ast.Starred(value=args[0], ctx=ast.Load())])
                newv = phi([ast.List(elts=list(a.elts) + add, ctx=ast.Load()) for a in alts(cur)])
                strong = self.assign_depth.get(func.value.id) == len(self.guards)
                self.env[func.value.id] = newv if strong else phi([cur, newv])
                return NONE
        if isinstance(sc.func, ast.Name) and (sc.func.id in PURE_BUILTINS or sc.func.id.startswith("$")) and sc.func.id not in self.env:
            return sc
        name = u(sc.func)
        sid = self.pe.site_id(e, self.f, self.ctx_key)
        ev = Event(name, sc, list(self.guards), self.f, e, sid)
        self.res.events.append(ev)
        # inlining
        inl = self._try_inline(e, sc)
        if inl is not None:
            return inl
        self.res.sites[sid] = sc
        self.res.site_nodes[sid] = e
        return ast.Name(id=f"$v{sid}", ctx=ast.Load())

    def _try_inline(self, orig: ast.Call, sc: ast.Call) -> Optional[ast.AST]:
        if self.depth >= MAX_INLINE_DEPTH:
            return None
        func = orig.func
        target: Optional[FuncInfo] = None
        skip_first = False
        attrs = None
        # a closure or lambda value being called
        if isinstance(sc.func, ast.Name) and sc.func.id in self.res.closures:
            node, cenv, cf, cself = self.res.closures[sc.func.id]
            fi = FuncInfo(node.name, cf.qualname + ".<locals>." + node.name, cf.module, node, None)
            env = dict(cenv)
            env.update(self.pe.bind(fi, sc.args, sc.keywords, skip_first=False))
            sub = Result(events=self.res.events, returns=[], attrs=self.res.attrs, raises=self.res.raises, sites=self.res.sites, site_nodes=self.res.site_nodes, closures=self.res.closures)
            w = _Walker(self.pe, fi, sub, self.self_cls, self.depth + 1)
            w.selfname = cself
            w.env = env
            w.guards = self.guards if self.pe.path_mode else list(self.guards)
            w.loop_depth = self.loop_depth
            w.ctx_key = self.ctx_key + f">{orig.lineno}:{orig.col_offset}"
            w.block(node.body)
            return phi([r for r, _ in sub.returns]) if sub.returns else NONE
        if isinstance(sc.func, ast.Lambda):
            lam = sc.func
            names = [a.arg for a in lam.args.args]
            env = {n: v for n, v in zip(names, sc.args)}
            for kw in sc.keywords:
                if kw.arg:
                    env[kw.arg] = kw.value
            sub = Result(events=self.res.events, returns=[], attrs=self.res.attrs, raises=self.res.raises, sites=self.res.sites, site_nodes=self.res.site_nodes, closures=self.res.closures)
            w = _Walker(self.pe, self.f, sub, self.self_cls, self.depth + 1)
            w.selfname = None
            w.env = env
            w.guards = self.guards if self.pe.path_mode else list(self.guards)
            w.loop_depth = self.loop_depth
            w.ctx_key = self.ctx_key + f">{orig.lineno}:{orig.col_offset}"
            return w.eval(lam.body)
        # super().__init__(...)
        if isinstance(func, ast.Attribute) and isinstance(func.value, ast.Call) and u(func.value.func) == "super" and self.self_cls is not None:
            mro = self.pe.model.mro(self.self_cls)
            # the class that defines the current function
            here = self.f.cls
            idx = [i for i, k in enumerate(mro) if k is here]
            start = idx[0] + 1 if idx else 1
            for k in mro[start:]:
                if func.attr in k.methods:
                    target = k.methods[func.attr]
                    break
            if target is None:
                return NONE
            skip_first, attrs = True, self.res.attrs
        elif isinstance(func, ast.Attribute) and isinstance(func.value, ast.Name) and func.value.id == self.selfname and self.self_cls is not None:
            m = self.pe.model.resolve_method(self.self_cls, func.attr)
            if m is None or m.name in ("__teal__",):
                return None
            if "property" in m.decorators():
                return None
            target, skip_first, attrs = m, "staticmethod" not in m.decorators(), self.res.attrs
        elif isinstance(func, ast.Name) and self.pe.inline_helpers:
            if func.id in self.env or func.id in NO_INLINE:
                return None
            r = self.pe.model.resolve_in_func(self.f, func.id)
            if isinstance(r, FuncInfo) and r.cls is None and _is_small_helper(r):
                target = r
        if target is None or target.node is self.f.node:
            return None
        if any(isinstance(n, (ast.Yield, ast.YieldFrom)) for n in ast.walk(target.node)):
            return None
        env = self.pe.bind(target, sc.args, sc.keywords, skip_first=False) if not skip_first else self.pe.bind(target, sc.args, sc.keywords, skip_first=True)
        sub = Result(events=self.res.events, returns=[], attrs=attrs if attrs is not None else {}, raises=self.res.raises, sites=self.res.sites, site_nodes=self.res.site_nodes, closures=self.res.closures)
        w = _Walker(self.pe, target, sub, self.self_cls if attrs is not None else None, self.depth + 1)
        params = target.node.args.posonlyargs + target.node.args.args
        w.selfname = params[0].arg if (skip_first and params and "classmethod" not in target.decorators()) else None
        w.env = env
        w.guards = self.guards if self.pe.path_mode else list(self.guards)
        w.loop_depth = self.loop_depth
        w.ctx_key = self.ctx_key + f">{orig.lineno}:{orig.col_offset}"
        w.block(target.node.body)
        if self.pe.path_mode and self.loop_depth == 0 and w.dead and w.last_exit == "raise":
            self.dead = True
            self.last_exit = "raise"
        if attrs is not None:
            self.res.attrs = sub.attrs
        if not sub.returns:
            return NONE
        return phi([r for r, _ in sub.returns])

    # -- statements -------------------------------------------------------------------
    def block(self, body: List[ast.stmt]) -> None:
        for st in body:
            if self.dead:
                return
            self.stmt(st)

    def assign_target(self, t: ast.AST, v: ast.AST) -> None:
        if isinstance(t, ast.Name):
            self.env[t.id] = v
            self.assign_depth[t.id] = len(self.guards)
        elif isinstance(t, (ast.Tuple, ast.List)):
            if isinstance(v, (ast.Tuple, ast.List)) and len(v.elts) == len(t.elts) and not any(isinstance(x, ast.Starred) for x in v.elts + t.elts):
                for ti, vi in zip(t.elts, v.elts):
                    self.assign_target(ti, vi)
            else:
                for i, ti in enumerate(t.elts):
                    if isinstance(ti, ast.Starred):
                        self.assign_target(ti.value, ast.Name(id="$unknown", ctx=ast.Load()))
                    else:
                        self.assign_target(ti, simp1(ast.Subscript(value=v, slice=ast.Constant(value=i), ctx=ast.Load())))
        elif isinstance(t, ast.Attribute) and isinstance(t.value, ast.Name) and t.value.id == self.selfname:
            self.res.attrs[t.attr] = v
        elif isinstance(t, ast.Attribute):
            # store to another object's attribute: record as an event  ($setattr)
            recv = self.sub(t.value)
            sc = ast.Call(func=ast.Attribute(value=recv, attr="$set_" + t.attr, ctx=ast.Load()), args=[v], keywords=[])
            self.res.events.append(Event(u(sc.func), sc, list(self.guards), self.f, _as_call_node(t)))
        elif isinstance(t, ast.Subscript):
            recv = self.sub(t.value)
            sc = ast.Call(func=ast.Attribute(value=recv, attr="$setitem", ctx=ast.Load()), args=[self.sub(t.slice), v], keywords=[])
            self.res.events.append(Event(u(sc.func), sc, list(self.guards), self.f, _as_call_node(t)))

    def _accumulator(self, v: ast.AST) -> Optional[ast.AST]:
        """an empty list/dict/set bound to a local is an accumulator: give it an allocation-site
        identity so that later .append/.add/[k]= events name it"""
        empty = (isinstance(v, (ast.List, ast.Set)) and not v.elts) or (isinstance(v, ast.Dict) and not v.keys) or (
            isinstance(v, ast.Call) and isinstance(v.func, ast.Name) and v.func.id in ("list", "dict", "set", "OrderedDict", "defaultdict") and not v.args
        )
        if not empty:
            return None
        sid = self.pe.site_id(v, self.f, self.ctx_key)
        self.res.sites[sid] = clone(v)
        self.res.site_nodes[sid] = v
        return ast.Name(id=f"$v{sid}", ctx=ast.Load())

    def stmt(self, st: ast.stmt) -> None:
        if isinstance(st, ast.Expr):
            if isinstance(st.value, ast.Constant):
                return
            self.eval(st.value)
        elif isinstance(st, ast.Assign):
            v = self._accumulator(st.value) or self.eval(st.value)
            for t in st.targets:
                self.assign_target(t, v)
        elif isinstance(st, ast.AnnAssign):
            if st.value is not None:
                self.assign_target(st.target, self._accumulator(st.value) or self.eval(st.value))
        elif isinstance(st, ast.AugAssign):
            cur = self.sub(st.target) if isinstance(st.target, (ast.Name, ast.Attribute)) else ast.Name(id="$unknown", ctx=ast.Load())
            v = self.eval(st.value)
            newv = simp1(ast.BinOp(left=cur, op=st.op, right=v))
            if isinstance(st.target, (ast.Name, ast.Attribute)):
                self.assign_target(st.target, newv)
        elif isinstance(st, ast.Return):
            v = self.eval(st.value) if st.value is not None else NONE
            self.res.returns.append((v, list(self.guards)))
            self.dead = True
            self.last_exit = "return"
        elif isinstance(st, ast.Raise):
            exc = self.eval(st.exc) if st.exc is not None else NONE
            self.res.raises.append((exc, list(self.guards), st))
            self.dead = True
            self.last_exit = "raise"
        elif isinstance(st, ast.If):
            self._if(st)
        elif isinstance(st, (ast.For, ast.AsyncFor)):
            self._for(st)
        elif isinstance(st, ast.While):
            t = self.sub(st.test)
            self._record_calls_in(st.test)
            self._loop_body(st.body, [(t, True)])
        elif isinstance(st, ast.With):
            for item in st.items:
                v = self.eval(item.context_expr)
                if item.optional_vars is not None:
                    self.assign_target(item.optional_vars, v)
            self.block(st.body)
        elif isinstance(st, ast.Try):
            saved_env = dict(self.env)
            self.block(st.body)
            body_dead = self.dead
            self.dead = False
            if not body_dead:
                self.block(st.orelse)
            after_env, after_dead = dict(self.env), self.dead
            # handlers: walked with the pre-try environment joined with post-try
            for h in st.handlers:
                self.env = self._join_env(saved_env, after_env)
                self.dead = False
                self.guards.append((ast.Name(id="$except_" + (u(h.type) if h.type else "any"), ctx=ast.Load()), True))
                if h.name:
                    self.env[h.name] = ast.Name(id="$exc", ctx=ast.Load())
                self.block(h.body)
                self.guards.pop()
            self.env, self.dead = after_env, after_dead
            if st.finalbody:
                d = self.dead
                self.dead = False
                self.block(st.finalbody)
                self.dead = self.dead or d
        elif isinstance(st, (ast.FunctionDef, ast.AsyncFunctionDef)):
            cid = f"$closure_{self.pe.site_id(st, self.f, self.ctx_key)}_{st.name}"
            self.env[st.name] = ast.Name(id=cid, ctx=ast.Load())
            self.res.closures[cid] = (st, self.env, self.f, self.selfname)
        elif isinstance(st, ast.Assert):
            t = self.eval(st.test)
            self.guards.append((t, True))  # holds afterwards (never popped within this block)
        elif isinstance(st, ast.Match):
            subj = self.eval(st.subject)
            envs = []
            for c in st.cases:
                saved = dict(self.env)
                self.guards.append((ast.Call(func=ast.Name(id="$case", ctx=ast.Load()), args=[subj, ast.Constant(value=u(c.pattern))], keywords=[]), True))
                d0 = self.dead
                self.block(c.body)
                if not self.dead:
                    envs.append(dict(self.env))
                self.dead = d0
                self.guards.pop()
                self.env = saved
            if envs:
                e0 = envs[0]
                for e1 in envs[1:]:
                    e0 = self._join_env(e0, e1)
                self.env = e0
        elif isinstance(st, (ast.Import, ast.ImportFrom, ast.Pass, ast.Global, ast.Nonlocal, ast.ClassDef, ast.Delete)):
            return
        elif isinstance(st, (ast.Break, ast.Continue)):
            self.dead = True
        else:
            return

    def _join_env(self, a: Dict[str, ast.AST], b: Dict[str, ast.AST]) -> Dict[str, ast.AST]:
        out = {}
        for k in set(a) | set(b):
            va, vb = a.get(k), b.get(k)
            if va is None:
                out[k] = phi([UNDEF, vb])
            elif vb is None:
                out[k] = phi([va, UNDEF])
            else:
                out[k] = phi([va, vb])
        return out

    def _narrow(self, test: ast.AST, pol: bool, orig_test: ast.AST):
        """`name == Op.X` on a $phi-valued local: narrow the local inside the arm"""
        if isinstance(orig_test, ast.Compare) and len(orig_test.ops) == 1 and isinstance(orig_test.left, ast.Name):
            nm = orig_test.left.id
            cur = self.env.get(nm)
            if cur is None or not is_phi(cur):
                return
            rhs = self.sub(orig_test.comparators[0])
            is_eq = isinstance(orig_test.ops[0], (ast.Eq, ast.Is))
            is_ne = isinstance(orig_test.ops[0], (ast.NotEq, ast.IsNot))
            if not (is_eq or is_ne):
                return
            want_eq = is_eq == pol
            key = ast.dump(rhs)
            if want_eq:
                if any(ast.dump(a) == key for a in alts(cur)):
                    self.env[nm] = rhs
            else:
                rest = [a for a in alts(cur) if ast.dump(a) != key]
                if rest:
                    self.env[nm] = phi(rest)

    def _path_decide(self, t: ast.AST) -> Optional[bool]:
        """path mode, outside loops: decide by the path condition or fork"""
        if not (self.pe.path_mode and self.loop_depth == 0):
            return None
        d = self._path_lookup(t)
        if d is not None:
            return d
        d = self.pe.choose()
        self.guards.append((t, d))
        return d

    def _path_lookup(self, t: ast.AST) -> Optional[bool]:
        d0 = decide(t)
        if d0 is not None:
            return d0
        key, kpol = canon_test(t)
        for g, pol in self.guards:
            gk, gpol = canon_test(g)
            if gk == key:
                return pol if gpol == kpol else (not pol)
        # a Python int is not a PyTeal Expr: `type(x) is int` / `isinstance(x, int)` and
        # `isinstance(x, Expr)` exclude each other
        mine = _kind_test(t)
        if mine is not None:
            subj, kind, tpol = mine
            for g, pol in self.guards:
                other = _kind_test(g)
                if other is None:
                    continue
                osubj, okind, opol = other
                if osubj == subj and okind != kind and (pol == opol):  # the other kind is known to hold
                    return not tpol
        if isinstance(t, ast.UnaryOp) and isinstance(t.op, ast.Not):
            r = self._path_lookup(t.operand)
            return None if r is None else (not r)
        if isinstance(t, ast.BoolOp):
            parts = [self._path_lookup(v) for v in t.values]
            if isinstance(t.op, ast.And):
                if any(p is False for p in parts):
                    return False
                if all(p is True for p in parts):
                    return True
            else:
                if any(p is True for p in parts):
                    return True
                if all(p is False for p in parts):
                    return False
        return None

    def _if(self, st: ast.If) -> None:
        t = self.eval(st.test)
        d = decide(t)
        if d is None:
            d = self._path_decide(t)
            if d is not None:
                self._narrow(t, d, st.test)
        if d is True:
            self.block(st.body)
            return
        if d is False:
            self.block(st.orelse)
            return
        env0, attrs0 = dict(self.env), dict(self.res.attrs)
        self.guards.append((t, True))
        self._narrow(t, True, st.test)
        self.block(st.body)
        if u(t) == "$index == 0":
            # values bound in the first iteration only
            self.env = _tag_changed("$first", env0, self.env)
        env1, attrs1, dead1 = self.env, self.res.attrs, self.dead
        self.guards.pop()
        self.env, self.res.attrs, self.dead = dict(env0), dict(attrs0), False
        self.guards.append((t, False))
        self._narrow(t, False, st.test)
        self.block(st.orelse)
        env2, attrs2, dead2 = self.env, self.res.attrs, self.dead
        self.guards.pop()
        if dead1 and dead2:
            self.dead = True
            return
        self.dead = False
        if dead1:
            self.env, self.res.attrs = env2, attrs2
            self.guards.append((t, False))
            return
        if dead2:
            self.env, self.res.attrs = env1, attrs1
            self.guards.append((t, True))
            return
        self.env = self._join_env(env1, env2)
        self.res.attrs = self._join_env(attrs1, attrs2)

    def _loop_body(self, body, extra_guards):
        self.loop_depth += 1
        try:
            self._loop_body2(body, extra_guards)
        finally:
            self.loop_depth -= 1

    def _loop_body2(self, body, extra_guards):
        env_in = dict(self.env)
        attrs_in = dict(self.res.attrs)
        # pass 1 (events discarded), to learn loop-carried values
        n_ev, n_ret, n_raise = len(self.res.events), len(self.res.returns), len(self.res.raises)
        self.guards.extend(extra_guards)
        self.block(body)
        self.dead = False
        env_1, attrs_1 = self.env, self.res.attrs
        del self.res.events[n_ev:]
        del self.res.returns[n_ret:]
        del self.res.raises[n_raise:]
        # pass 2 from the joined state; values carried over from an earlier iteration are tagged $prev
        self.env = self._join_env(env_in, _tag_changed("$prev", env_in, env_1))
        self.res.attrs = self._join_env(attrs_in, _tag_changed("$prev", attrs_in, attrs_1))
        self.block(body)
        self.dead = False
        for _ in extra_guards:
            self.guards.pop()
        # after the loop: zero iterations (entry state) or the state left by the last iteration ($last)
        self.env = self._join_env(env_in, _tag_changed("$last", env_in, self.env))
        self.res.attrs = self._join_env(attrs_in, _tag_changed("$last", attrs_in, self.res.attrs))

    def _for(self, st) -> None:
        it = self.eval(st.iter)
        # enumerate(x) / reversed(x) / zip are kept symbolic
        loopvar = ast.Call(func=ast.Name(id="$each", ctx=ast.Load()), args=[it], keywords=[])
        # common shapes: for i, x in enumerate(seq)
        src = it if isinstance(it, ast.Call) else None
        if src is not None and u(src.func) == "enumerate" and isinstance(st.target, ast.Tuple) and len(st.target.elts) == 2:
            self.assign_target(st.target.elts[0], ast.Name(id="$index", ctx=ast.Load()))
            self.assign_target(st.target.elts[1], ast.Call(func=ast.Name(id="$each", ctx=ast.Load()), args=[src.args[0]], keywords=[]))
            self._loop_body_with_target(st, None)
        else:
            self._loop_body_with_target(st, loopvar)
        if st.orelse:
            self.block(st.orelse)

    def _loop_body_with_target(self, st, loopvar):
        if loopvar is not None:
            self.assign_target(st.target, loopvar)
        self._loop_body(st.body, [])


def _tag(tag: str, e: ast.AST) -> ast.AST:
    out = []
    for a in alts(e):
        if isinstance(a, ast.Constant) or (isinstance(a, ast.Name) and (a.id.startswith(PARAM) or a.id in ("$undef", "$unknown"))):
            out.append(a)
            continue
        if isinstance(a, ast.Call) and isinstance(a.func, ast.Name) and a.func.id == "$first":
            out.append(a)
            continue
        while isinstance(a, ast.Call) and isinstance(a.func, ast.Name) and a.func.id in ("$prev", "$last"):
            a = a.args[0]
        out.append(ast.Call(func=ast.Name(id=tag, ctx=ast.Load()), args=[a], keywords=[]))
    return phi(out)


def _tag_changed(tag: str, before: Dict[str, ast.AST], after: Dict[str, ast.AST]) -> Dict[str, ast.AST]:
    out = {}
    for k, v in after.items():
        b = before.get(k)
        if b is not None and ast.dump(b) == ast.dump(v):
            out[k] = v
        else:
            # alternatives already present before the loop stay untagged
            keep = {ast.dump(x) for x in alts(b)} if b is not None else set()
            parts = [x if ast.dump(x) in keep else _tag(tag, x) for x in alts(v)]
            out[k] = phi(parts)
    return out


def _site_of(e: ast.AST) -> Optional[int]:
    if isinstance(e, ast.Name) and e.id.startswith("$v"):
        try:
            return int(e.id[2:])
        except ValueError:
            return None
    return None


def _as_call_node(t: ast.AST) -> ast.Call:
    c = ast.Call(func=ast.Name(id="$store", ctx=ast.Load()), args=[], keywords=[])
    c.lineno = getattr(t, "lineno", 0)
    c.col_offset = getattr(t, "col_offset", 0)
    return c


def _is_small_helper(f: FuncInfo) -> bool:
    n = sum(1 for x in ast.walk(f.node) if isinstance(x, ast.stmt))
    if n > 40:
        return False
    has = any(isinstance(x, ast.Raise) for x in ast.walk(f.node)) or any(
        isinstance(x, ast.Call) and u(x.func) in ("require_type",) for x in ast.walk(f.node)
    )
    return has


def site(res: Result, e: ast.AST) -> Optional[ast.Call]:
    k = _site_of(e)
    return res.sites.get(k) if k is not None else None


def deref(res: Result, e: ast.AST, depth: int = 0) -> ast.AST:
    """replace $v<k> by the call it names (one level)"""
    k = _site_of(e)
    if k is not None and k in res.sites:
        return res.sites[k]
    return e


def show(res: Result, e: ast.AST, depth: int = 3) -> str:
    """human readable: $v names expanded"""

    class X(ast.NodeTransformer):
        def __init__(self, d):
            self.d = d

        def visit_Name(self, node):
            k = _site_of(node)
            if k is not None and k in res.sites and self.d > 0:
                return X(self.d - 1).visit(clone(res.sites[k]))
            return node

    return u(X(depth).visit(clone(e)))
