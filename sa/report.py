"""E7 - rule context: instance counting, findings, known findings, evidence writer."""
from __future__ import annotations

import json
import os
import time
from typing import Any, Dict, List, Optional

from .model import AnalysisError, Model

VERIF = os.path.dirname(os.path.dirname(os.path.abspath(__file__)))


class Finding:
    def __init__(self, prop, rule, construct, what, where="", detail=None):
        self.prop = prop
        self.rule = rule
        self.construct = construct  # stable key: qualified name + role, never a line number
        self.what = what
        self.where = where  # file:line (diagnostic only)
        self.detail = detail or {}

    def key(self):
        return (self.prop, self.rule, self.construct)

    def as_dict(self):
        return {
            "property": self.prop,
            "rule": self.rule,
            "construct": self.construct,
            "what": self.what,
            "where": self.where,
            "detail": self.detail,
        }


class Ctx:
    def __init__(self, prop: str, tier: str, model: Model, seed: int = 0):
        self.prop = prop
        self.tier = tier
        self.model = model
        self.seed = seed
        self.t0 = time.time()
        self.findings: List[Finding] = []
        self.instances: Dict[str, int] = {}  # rule -> instances evaluated
        self.nontrivial: Dict[str, set] = {}  # rule -> distinct constructs
        self.samples: List[Any] = []
        self.rules_doc: Dict[str, str] = {}
        self.unchecked: List[str] = []
        self.assumptions: List[str] = []
        self.functions_analysed: set = set()
        self.obligations = 0
        self.discharged = 0
        self.notes: List[str] = []
        self._sample_per_rule: Dict[str, int] = {}
        self.write = True

    # -- recording ---------------------------------------------------------------------
    def rule(self, rid: str, doc: str) -> None:
        self.rules_doc[rid] = doc
        self.instances.setdefault(rid, 0)
        self.nontrivial.setdefault(rid, set())

    def ok(self, rid: str, construct: str, fact: Any = None, where: str = "") -> None:
        """one rule instance evaluated and found to hold"""
        self.instances[rid] = self.instances.get(rid, 0) + 1
        self.nontrivial.setdefault(rid, set()).add(construct)
        self.obligations += 1
        self.discharged += 1
        k = self._sample_per_rule.get(rid, 0)
        if k < 3:
            self._sample_per_rule[rid] = k + 1
            self.samples.append({"rule": rid, "construct": construct, "where": where, "fact": fact, "verdict": "holds"})

    def bad(self, rid: str, construct: str, what: str, where: str = "", detail=None) -> None:
        self.instances[rid] = self.instances.get(rid, 0) + 1
        self.nontrivial.setdefault(rid, set()).add(construct)
        self.obligations += 1
        self.findings.append(Finding(self.prop, rid, construct, what, where, detail))

    def check(self, cond: bool, rid: str, construct: str, what: str, where: str = "", fact: Any = None, detail=None) -> bool:
        if cond:
            self.ok(rid, construct, fact if fact is not None else what, where)
        else:
            self.bad(rid, construct, what, where, detail)
        return cond

    def analysed(self, *fq: str) -> None:
        self.functions_analysed.update(fq)

    def require_min(self, rid: str, n: int) -> None:
        got = self.instances.get(rid, 0)
        if any(f.rule == rid for f in self.findings):
            return  # the rule matched and fired: not vacuous (failing instances are reported aggregated)
        if got < n:
            raise AnalysisError(f"rule {rid}: only {got} instances matched, {n} were confirmed by hand on the reference tree (vacuous pass refused)")

    def uncheck(self, what: str) -> None:
        self.unchecked.append(what)

    def assume(self, what: str) -> None:
        if what not in self.assumptions:
            self.assumptions.append(what)


def load_known() -> List[dict]:
    p = os.path.join(VERIF, "known_findings.json")
    if not os.path.exists(p):
        return []
    with open(p) as fh:
        return json.load(fh).get("findings", [])


def finish(ctx: Ctx, explanation: str, level: str = "other") -> int:
    known = [k for k in load_known() if k.get("property") == ctx.prop and k.get("status") == "known"]
    known_keys = {(k["property"], k["rule"], k["construct"]): k for k in known}
    new: List[Finding] = []
    matched = []
    seen = set()
    for f in ctx.findings:
        if f.key() in seen:
            continue
        seen.add(f.key())
        if f.key() in known_keys:
            matched.append(f)
        else:
            new.append(f)
    rep_dir = os.path.join(VERIF, "reports", ctx.prop)
    if ctx.write:
        os.makedirs(rep_dir, exist_ok=True)
        for fn in os.listdir(rep_dir):
            if fn.endswith(".json"):
                os.unlink(os.path.join(rep_dir, fn))
    for f in matched:
        print(f"KNOWN-FINDING: property={ctx.prop} {f.rule} {f.construct}: {f.what}")
    for i, f in enumerate(new, 1):
        path = os.path.join(rep_dir, f"{i}.json")
        if ctx.write:
            with open(path, "w") as fh:
                json.dump(f.as_dict(), fh, indent=1)
        print(f"  {f.rule} {f.construct} [{f.where}]: {f.what}")
        print(f"VIOLATION property={ctx.prop} replay={path}")
    wall = time.time() - ctx.t0
    evaluations = sum(ctx.instances.values())
    distinct = len({(r, c) for r, s in ctx.nontrivial.items() for c in s})
    ev = {
        "property_id": ctx.prop,
        "tier": ctx.tier,
        "seed": ctx.seed,
        "level": level,
        "coverage": {
            "explanation": explanation,
            "evaluations": evaluations,
            "distinct_nontrivial": distinct,
            "rule": "one evaluation = one rule instance (a rule applied to one resolved construct of /repo: an emission site, a factory, a guard, a table row, an edge fact set ...); "
            "distinct_nontrivial counts distinct (rule, construct) pairs, a construct being a qualified name plus role; "
            "instances that merely confirm absence of a construct are not counted",
            "samples": ctx.samples[:40],
            "obligations": ctx.obligations,
            "discharged": ctx.discharged,
            "rules": {r: {"doc": ctx.rules_doc.get(r, ""), "instances": n} for r, n in sorted(ctx.instances.items())},
            "functions_analysed": len(ctx.functions_analysed),
            "functions_analysed_sample": sorted(ctx.functions_analysed)[:25],
            "modules_parsed": len(ctx.model.modules),
            "source_digest": ctx.model.digest(),
            "unchecked": ctx.unchecked,
            "known_findings_matched": [f"{f.rule} {f.construct}" for f in matched],
            "notes": ctx.notes,
        },
        "assumptions": ctx.assumptions
        + [
            "CPython's ast module parses the repository faithfully",
            "the resolution code in /verif/sa and the reference tables in /verif/spec are correct",
        ],
        "wall_s": round(wall, 3),
        "violations": len(new),
    }
    if ctx.write:
        ev_dir = os.path.join(VERIF, "evidence")
        os.makedirs(ev_dir, exist_ok=True)
        with open(os.path.join(ev_dir, f"{ctx.prop}.json"), "w") as fh:
            json.dump(ev, fh, indent=1, default=str)
    print(
        f"[{ctx.prop}] tier={ctx.tier} rule-instances={evaluations} distinct={distinct} "
        f"functions={len(ctx.functions_analysed)} known={len(matched)} violations={len(new)} wall={wall:.2f}s"
    )
    return 1 if new else 0
