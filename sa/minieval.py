"""E6 - bounded partial evaluation of the small list-building fragments of the compiler that
assemble *literal* TEAL op lists (spill/restore around re-entrant calls, WideRatio, DupN, ...).

This evaluates the *syntax tree* of the analysed function with our own evaluator over abstract
inputs (symbolic slot names, small sizes, free boolean facts supplied by an oracle).  Nothing of
the repository is imported or executed.  Every expression the evaluator does not understand is an
AnalysisError (unrecognised idiom), never a verdict.
"""
from __future__ import annotations

import ast
import itertools
from typing import Any, Callable, Dict, List, Optional, Tuple

from .astutil import u
from .model import AnalysisError


class Sym:
    """an opaque symbolic object (a slot, a subroutine definition, an enum class ...) with the
    attributes and methods the analysed fragment may consult"""

    def __init__(self, name: str, attrs: Optional[Dict[str, Any]] = None, methods: Optional[Dict[str, Callable]] = None):
        self.name = name
        self.attrs = attrs or {}
        self.methods = methods or {}

    def __repr__(self):
        return self.name

    def __str__(self):
        # str(obj), format(obj) and f-strings use the modelled object's own __str__ when it has one
        m = self.methods.get("__str__")
        return m() if m is not None else self.name

    def __eq__(self, other):
        # list / tuple comparison, list.index, list.remove ... on modelled objects use the object's own __eq__ when it has one
        m = self.methods.get("__eq__")
        if m is None or other is self:
            return other is self
        try:
            return bool(m(other))
        except Exception:
            raise

    def __ne__(self, other):
        return not self.__eq__(other)

    __hash__ = object.__hash__

    def __bool__(self):
        # builtins applied to modelled objects (any(), all(), filter(None, ...)) see the object's own truth value
        m = self.methods.get("__bool__")
        return bool(m()) if m is not None else True


SAFE_METHODS = {
    list: {"append", "extend", "insert", "pop", "index", "copy", "count", "reverse"},
    dict: {"items", "keys", "values", "get", "setdefault", "copy"},
    set: {"intersection", "union", "add", "difference", "issubset", "copy", "update"},
    frozenset: {"intersection", "union", "difference", "issubset"},
    tuple: {"index", "count"},
    str: {"join", "format", "startswith", "endswith", "encode", "replace", "split", "strip", "rstrip", "lstrip", "upper", "lower", "isdigit", "find", "index", "count", "splitlines", "zfill", "rjust", "ljust", "isalnum", "partition"},
    bytes: {"decode", "hex", "startswith", "endswith", "join", "rjust", "ljust"},
    bytearray: {"decode", "hex"},
}
for _ty in (str, bytes, bytearray, tuple, frozenset, int, list, dict, set):
    SAFE_METHODS.setdefault(_ty, set()).update(n for n in dir(_ty) if not n.startswith("_"))
    SAFE_METHODS[_ty].update({"__getitem__", "__contains__", "__len__"} & set(dir(_ty)))
SAFE_TYPE_ATTRS = {bytes: {"fromhex"}, int: {"from_bytes"}, dict: {"fromkeys"}}
SAFE_MODULES = {"base64", "re", "math", "string", "unicodedata", "binascii"}


class OpVal:
    """a constructed TealOp: op member name + immediate arguments"""

    def __init__(self, op: str, args: List[Any]):
        self.op = op
        self.args = args
        self.expr = None  # the expression the op is attributed to (first argument of TealOp)
        self.tags: Dict[str, Any] = {}  # attributes stored on the op by the analysed code (source-map containers)

    def __repr__(self):
        return " ".join([self.op] + [str(a) for a in self.args])


def _sorted(x, key=None, reverse=False):
    x = list(x)
    if key is not None:
        return sorted(x, key=key, reverse=reverse)
    try:
        return sorted(x, reverse=reverse)
    except TypeError:
        return sorted(x, key=str, reverse=reverse)


class Rec:
    """a recording opaque value: attribute access, calls and subscripts build a term; used for the
    objects the analysed fragment only *constructs or passes on* (Expr nodes, ScratchVars, protos)"""

    __slots__ = ("kind", "parts", "tags")

    def __init__(self, kind: str, *parts):
        self.kind = kind  # 'name' | 'attr' | 'call' | 'item'
        self.parts = parts
        self.tags: Dict[str, Any] = {}

    def __repr__(self):
        k, p = self.kind, self.parts
        if k == "name":
            return str(p[0])
        if k == "attr":
            return f"{p[0]!r}.{p[1]}"
        if k == "item":
            return f"{p[0]!r}[{p[1]!r}]"
        if k == "call":
            args = [repr(a) for a in p[1]] + [f"{kk}={vv!r}" for kk, vv in p[2].items()]
            return f"{p[0]!r}({', '.join(args)})"
        return f"<{k}>"

    def __eq__(self, other):
        return isinstance(other, Rec) and repr(self) == repr(other)

    def __hash__(self):
        return hash(repr(self))

    # helpers for rules
    def is_call(self, fname: Optional[str] = None) -> bool:
        return self.kind == "call" and (fname is None or self.fn == fname or self.fn.endswith("." + fname))

    @property
    def fn(self) -> str:
        """callee text without allocation serials"""
        import re as _re

        return _re.sub(r"#\d+", "", repr(self.parts[0])) if self.kind == "call" else ""

    @property
    def text(self) -> str:
        import re as _re

        return _re.sub(r"#\d+", "", repr(self))

    @property
    def args(self) -> list:
        return list(self.parts[1]) if self.kind == "call" else []

    @property
    def kwargs(self) -> dict:
        return dict(self.parts[2]) if self.kind == "call" else {}

    def walk(self):
        yield self
        for p in self.parts:
            yield from _walk_val(p)


def _walk_val(v):
    if isinstance(v, Rec):
        yield from v.walk()
    elif isinstance(v, (list, tuple)):
        for x in v:
            yield from _walk_val(x)
    elif isinstance(v, dict):
        for x in v.values():
            yield from _walk_val(x)


class _Break(Exception):
    pass


class _Continue(Exception):
    pass


class _Return(Exception):
    def __init__(self, v):
        self.v = v


class Raised(Exception):
    """the analysed fragment raises under the abstract input"""

    def __init__(self, exc_text: str, node: ast.AST):
        super().__init__(exc_text)
        self.exc_text = exc_text
        self.node = node


class Unknown(Exception):
    pass


def _has_yield(fnode) -> bool:
    stack = list(getattr(fnode, "body", []))
    while stack:
        n = stack.pop()
        if isinstance(n, (ast.Yield, ast.YieldFrom)):
            return True
        if isinstance(n, (ast.FunctionDef, ast.AsyncFunctionDef, ast.Lambda, ast.ClassDef)):
            continue
        stack.extend(ast.iter_child_nodes(n))
    return False


def _interpreted_generator(sub: "MiniEval", fnode):
    """a lazy Python generator driven by the interpreted generator function: the body runs in a helper thread that hands
    control back at every `yield` (only one of the two threads runs at any time)"""
    import threading

    to_consumer: list = []
    resume = threading.Semaphore(0)
    ready = threading.Semaphore(0)
    state = {"done": False, "error": None}

    def hook(value):
        to_consumer.append(value)
        ready.release()
        resume.acquire()
        return None

    def runner():
        resume.acquire()
        try:
            sub.yield_hook = hook
            sub.run(fnode.body)
        except _Return:
            pass
        except BaseException as ex:  # propagate analysis errors / Raised to the consumer
            state["error"] = ex
        state["done"] = True
        ready.release()

    t = threading.Thread(target=runner, daemon=True)
    t.start()

    def gen():
        while True:
            resume.release()
            ready.acquire()
            if to_consumer:
                yield to_consumer.pop(0)
                continue
            if state["error"] is not None:
                raise state["error"]
            return

    return gen()


class Closure:
    def __init__(self, node, env, me):
        self.node, self.env, self.me = node, env, me

    def __call__(self, *args, **kwargs):
        return self.me.call_def(self.node, list(args), kwargs, dict(self.env), writeback=self.env)


_BUILTINS = {
    "len": len, "list": list, "sorted": _sorted, "reversed": lambda x: list(reversed(x)), "range": lambda *a: list(range(*a)), "int": int, "bool": bool,
    "min": min, "max": max, "set": lambda x=(): set(x), "tuple": tuple, "enumerate": lambda x, start=0: list(enumerate(x, start)), "zip": lambda *a: list(zip(*a)), "sum": sum,
    "abs": abs, "filter": lambda f, xs: [x for x in xs if f(x)], "map": lambda f, *xs: [f(*a) for a in zip(*xs)], "str": str, "dict": dict, "any": any, "all": all, "divmod": divmod, "frozenset": frozenset, "repr": repr, "id": id, "bytes": bytes,
}


class MiniEval:
    """evaluator of a function's syntax tree over abstract values.
    oracle(node, me) -> value for free names / attribute chains / calls the evaluator cannot do itself
    (raise Unknown to refuse).  With permissive=True unknown free names and calls on opaque values
    become recording Rec terms instead of analysis errors."""

    serial = 0

    def __init__(self, oracle: Callable[[ast.AST, "MiniEval"], Any], where: str = "", permissive: bool = False, resolver: Optional[Callable[[str], Any]] = None):
        self.env: Dict[str, Any] = {}
        self.oracle = oracle
        self.where = where
        self.steps = 0
        self.consulted: List[str] = []
        self.permissive = permissive
        self.resolver = resolver
        self.depth = 0
        self.yield_hook = None
        self.expr_compare = False  # comparisons involving recorded expression terms build a term (Expr.__eq__ & co)
        self.ctor_fields: Optional[Callable[[str], Any]] = None  # class name -> (init params, {attr: param})
        self.isinstance_hook: Optional[Callable[[Any, str], Optional[bool]]] = None
        self.truth_hook: Optional[Callable[[Any], Optional[bool]]] = None

    # ---------------------------------------------------------------- expressions
    def truth(self, v: Any) -> bool:
        if isinstance(v, (Rec, Sym)):
            if self.truth_hook is not None:
                r = self.truth_hook(v)
                if r is not None:
                    return r
            return True  # plain objects are truthy
        return bool(v)

    def ev(self, e: ast.AST) -> Any:
        self.steps += 1
        if self.steps > 400000:
            raise AnalysisError(f"{self.where}: evaluation budget exceeded")
        if isinstance(e, ast.Constant):
            return e.value
        if isinstance(e, ast.Name):
            if e.id in self.env:
                return self.env[e.id]
            if e.id in ("True", "False", "None"):
                return {"True": True, "False": False, "None": None}[e.id]
            try:
                return self.oracle(e, self)
            except Unknown:
                pass
            if self.resolver is not None:
                target = self.resolver(e.id)
                if target is not None:
                    return lambda *a, **k: self.call_def(target, list(a), dict(k), {})  # a helper function used as a value
            if e.id in _BUILTINS and e.id not in ("int", "str", "bytes", "bytearray", "list", "dict", "tuple", "set", "bool", "float", "type"):
                return _BUILTINS[e.id]
            if e.id in ("int", "str", "bytes", "bytearray", "list", "dict", "tuple", "set", "bool", "float", "type"):
                return {"int": int, "str": str, "bytes": bytes, "bytearray": bytearray, "list": list, "dict": dict, "tuple": tuple, "set": set, "bool": bool, "float": float, "type": type}[e.id]
            return self._ask(e)
        if isinstance(e, (ast.List, ast.Tuple, ast.Set)):
            out = []
            for x in e.elts:
                if isinstance(x, ast.Starred):
                    out.extend(self.ev(x.value))
                else:
                    out.append(self.ev(x))
            return out if isinstance(e, ast.List) else (tuple(out) if isinstance(e, ast.Tuple) else set(out))
        if isinstance(e, ast.Dict):
            d = {}
            for k, v in zip(e.keys, e.values):
                if k is None:
                    d.update(self.ev(v))
                else:
                    d[self.ev(k)] = self.ev(v)
            return d
        if isinstance(e, ast.UnaryOp):
            v = self.ev(e.operand)
            if isinstance(e.op, ast.Not):
                return not self.truth(v)
            if isinstance(e.op, ast.USub):
                return -v
            if isinstance(e.op, ast.Invert) and isinstance(v, int):
                return ~v
            if isinstance(e.op, ast.UAdd) and isinstance(v, (int, float)):
                return +v
        if isinstance(e, ast.BoolOp):
            if isinstance(e.op, ast.And):
                v = True
                for x in e.values:
                    v = self.ev(x)
                    if not self.truth(v):
                        return v
                return v
            v = False
            for x in e.values:
                v = self.ev(x)
                if self.truth(v):
                    return v
            return v
        if isinstance(e, ast.BinOp):
            a, b = self.ev(e.left), self.ev(e.right)
            if isinstance(a, Rec) or isinstance(b, Rec):
                return Rec("call", Rec("name", "$binop:" + type(e.op).__name__), [a, b], {})
            if isinstance(e.op, (ast.Sub, ast.BitAnd, ast.BitOr, ast.BitXor)):
                # dict views are handed out as lists by this evaluator; in set algebra they behave as sets
                if isinstance(a, (set, frozenset)) and isinstance(b, list):
                    b = set(b)
                elif isinstance(b, (set, frozenset)) and isinstance(a, list):
                    a = set(a)
            try:
                if isinstance(e.op, ast.Add):
                    return a + b
                if isinstance(e.op, ast.Sub):
                    return a - b
                if isinstance(e.op, ast.Mult):
                    return a * b
                if isinstance(e.op, ast.FloorDiv):
                    return a // b
                if isinstance(e.op, ast.Mod):
                    return a % b
                if isinstance(e.op, ast.Pow):
                    return a ** b
                if isinstance(e.op, ast.BitOr):
                    return a | b
                if isinstance(e.op, ast.BitAnd):
                    return a & b
                if isinstance(e.op, ast.BitXor):
                    return a ^ b
                if isinstance(e.op, ast.LShift):
                    return a << b
                if isinstance(e.op, ast.RShift):
                    return a >> b
            except TypeError:
                pass
            raise AnalysisError(f"{self.where}: cannot evaluate `{u(e)}`")
        if isinstance(e, ast.Compare):
            left = self.ev(e.left)
            for op, r in zip(e.ops, e.comparators):
                right = self.ev(r)
                ok = self._cmp(op, left, right, e)
                if isinstance(ok, Rec):
                    return ok
                if not ok:
                    return False
                left = right
            return True
        if isinstance(e, ast.IfExp):
            return self.ev(e.body) if self.truth(self.ev(e.test)) else self.ev(e.orelse)
        if isinstance(e, ast.Subscript):
            v = self.ev(e.value)
            if isinstance(e.slice, ast.Slice):
                lo = self.ev(e.slice.lower) if e.slice.lower else None
                hi = self.ev(e.slice.upper) if e.slice.upper else None
                st = self.ev(e.slice.step) if e.slice.step else None
                if isinstance(v, Rec):
                    return Rec("item", v, (lo, hi, st))
                return v[lo:hi:st]
            i = self.ev(e.slice)
            if isinstance(v, Rec):
                return Rec("item", v, i)
            if isinstance(v, Sym):
                if "__getitem__" in v.methods:
                    return v.methods["__getitem__"](i)
                raise AnalysisError(f"{self.where}: subscript of abstract object in `{u(e)}`")
            try:
                return v[i]
            except (KeyError, IndexError, TypeError) as ex:
                raise Raised(f"{type(ex).__name__} at `{u(e)}`", e)
        if isinstance(e, ast.Attribute):
            try:
                base = self.ev(e.value)
            except Unknown:
                return self._ask(e)
            return self.getattr(base, e.attr, e)
        if isinstance(e, ast.Call):
            return self._call(e)
        if isinstance(e, (ast.ListComp, ast.GeneratorExp, ast.SetComp)):
            r = self._comp(e)
            return set(r) if isinstance(e, ast.SetComp) else r
        if isinstance(e, ast.DictComp):
            g = e.generators[0]
            out = {}
            saved = dict(self.env)
            for item in self.ev(g.iter):
                self._bind(g.target, item)
                if all(self.truth(self.ev(c)) for c in g.ifs):
                    out[self.ev(e.key)] = self.ev(e.value)
            self.env = saved
            return out
        if isinstance(e, ast.JoinedStr):
            parts = []
            for v in e.values:
                if isinstance(v, ast.Constant):
                    parts.append(str(v.value))
                    continue
                val = self.ev(v.value)
                if v.conversion == 114:
                    val = repr(val)
                elif v.conversion == 115:
                    val = str(val)
                elif v.conversion == 97:
                    val = ascii(val)
                spec = self.ev(v.format_spec) if v.format_spec is not None else ""
                try:
                    parts.append(format(val, spec))
                except (TypeError, ValueError):
                    parts.append(str(val))
            return "".join(parts)
        if isinstance(e, ast.Lambda):
            fn = ast.FunctionDef(name="<lambda>", args=e.args, body=[ast.Return(value=e.body)], decorator_list=[])
            return Closure(fn, dict(self.env), self)
        if isinstance(e, ast.NamedExpr):
            v = self.ev(e.value)
            self.env[e.target.id] = v
            return v
        if isinstance(e, ast.Starred):
            return self.ev(e.value)
        if isinstance(e, ast.Yield):
            if self.yield_hook is None:
                raise AnalysisError(f"{self.where}: yield outside an interpreted generator")
            return self.yield_hook(self.ev(e.value) if e.value is not None else None)
        raise AnalysisError(f"{self.where}: expression form not supported by the evaluator: `{u(e)}`")

    def _cmp(self, op, left, right, e) -> bool:
        if self.expr_compare and (isinstance(left, Rec) or isinstance(right, Rec)) and not isinstance(op, (ast.Is, ast.IsNot, ast.In, ast.NotIn)):
            # PyTeal overloads comparison operators on expressions: the result is an expression term
            return Rec("call", Rec("name", "$cmp:" + type(op).__name__), [left, right], {})
        if isinstance(op, (ast.Eq, ast.NotEq)):
            if isinstance(left, Sym) and "__eq__" in left.methods:
                res = self.truth(left.methods["__eq__"](right))
            elif isinstance(right, Sym) and "__eq__" in right.methods:
                res = self.truth(right.methods["__eq__"](left))
            else:
                res = left == right
            return res if isinstance(op, ast.Eq) else (not res)
        if isinstance(op, ast.Is):
            return left is right or (isinstance(left, Rec) and isinstance(right, Rec) and left == right)
        if isinstance(op, ast.IsNot):
            return not (left is right or (isinstance(left, Rec) and isinstance(right, Rec) and left == right))
        if isinstance(op, (ast.In, ast.NotIn)):
            exprish = isinstance(left, Rec) or (isinstance(left, Sym) and "Expr" in left.attrs.get("$isa", ()))
            if self.expr_compare and exprish and isinstance(right, (list, tuple)):
                # PyTeal expressions overload ==: `x == y` builds a (truthy) Eq expression, so membership of an
                # expression in a list of expressions is true as soon as the list is non-empty
                res = len(right) > 0
            elif isinstance(right, (list, tuple)) and ((isinstance(left, Sym) and "__eq__" in left.methods) or any(isinstance(x, Sym) and "__eq__" in x.methods for x in right)):
                # membership uses the modelled objects' own __eq__ (identity first, as Python does)
                res = False
                for x in right:
                    if x is left:
                        res = True
                        break
                    if isinstance(x, Sym) and "__eq__" in x.methods:
                        if self.truth(x.methods["__eq__"](left)):
                            res = True
                            break
                    elif isinstance(left, Sym) and "__eq__" in left.methods:
                        if self.truth(left.methods["__eq__"](x)):
                            res = True
                            break
                    elif x == left:
                        res = True
                        break
            else:
                if isinstance(right, Rec):
                    raise Unknown(f"membership test in the opaque value {right!r}")
                res = left in right
            return res if isinstance(op, ast.In) else (not res)
        try:
            if isinstance(op, ast.Lt):
                return left < right
            if isinstance(op, ast.LtE):
                return left <= right
            if isinstance(op, ast.Gt):
                return left > right
            if isinstance(op, ast.GtE):
                return left >= right
        except TypeError:
            concrete = (int, float, str, bytes, bool, tuple, list, type(None))
            if isinstance(left, concrete) and isinstance(right, concrete):
                # both operands are concrete values: Python itself raises here
                raise Raised(f"TypeError at `{u(e)}` ({type(left).__name__} vs {type(right).__name__})", e)
        raise AnalysisError(f"{self.where}: cannot decide comparison `{u(e)}` on abstract values ({left!r}, {right!r})")

    def getattr(self, base: Any, attr: str, e: ast.AST) -> Any:
        if isinstance(base, Sym):
            if attr in base.attrs:
                self.consulted.append(f"{base.name}.{attr}")
                return base.attrs[attr]
            if attr in base.methods:
                return base.methods[attr]
            raise AnalysisError(f"{self.where}: the fragment reads `{u(e)}` ({base.name}.{attr}), which the abstract input does not model")
        if isinstance(base, Rec):
            if attr in base.tags:
                return base.tags[attr]
            if base.kind == "call" and self.ctor_fields is not None and base.parts[0].kind == "name":
                fields = self.ctor_fields(base.fn)
                if fields and attr in fields[1]:
                    params, mapping = fields
                    pname = mapping[attr]
                    if pname in base.parts[2]:
                        return base.parts[2][pname]
                    if pname in params and params.index(pname) < len(base.parts[1]):
                        return base.parts[1][params.index(pname)]
            return Rec("attr", base, attr)
        if isinstance(base, OpVal):
            # the TealOp interface of a constructed op
            def opsym():
                if base.op.startswith("$"):
                    return Sym("Op." + base.op, attrs={"name": base.op, "min_version": 0})
                ops = self.oracle(ast.Name(id="Op", ctx=ast.Load()), self)
                return ops.attrs[base.op]

            if attr == "getOp":
                return opsym
            if attr == "op":
                return opsym()
            if attr == "args":
                return base.args
            if attr == "expr":
                return base.expr
            if attr == "getSlots":
                return lambda: [a for a in base.args if isinstance(a, Sym) and a.name.startswith("slot")]
            if attr == "getSubroutines":
                return lambda: [a for a in base.args if isinstance(a, Sym) and "SubroutineDefinition" in a.attrs.get("$isa", ())]
            if attr in ("resolveSubroutine", "assignSlot"):
                def replace(what, by):
                    for i, a in enumerate(base.args):
                        if a is what:
                            base.args[i] = by

                return replace
            if attr in base.tags:
                return base.tags[attr]
            if attr == "_sframes_container":
                return None
            raise AnalysisError(f"{self.where}: attribute `{u(e)}` of a constructed op is not modelled")
        if isinstance(base, type) and base in SAFE_TYPE_ATTRS and attr in SAFE_TYPE_ATTRS[base]:
            return getattr(base, attr)
        import types as _types

        if isinstance(base, _types.ModuleType) and base.__name__ in SAFE_MODULES:
            return getattr(base, attr)
        if type(base).__module__ == "re":
            return getattr(base, attr)
        if isinstance(base, (list, dict, set, tuple, str, frozenset, bytes, bytearray, int)) and not isinstance(base, bool):
            for ty, names in SAFE_METHODS.items():
                if isinstance(base, ty) and attr in names:
                    m = getattr(base, attr)
                    if attr in ("items", "keys", "values"):
                        return lambda *a, _m=m: list(_m(*a))
                    return m
        if base is None:
            # Python itself raises here: None has no such attribute
            raise Raised(f"AttributeError: 'NoneType' object has no attribute '{attr}' at `{u(e)[:60]}`", e)
        raise AnalysisError(f"{self.where}: attribute `{u(e)}` of an abstract value {type(base).__name__} is not modelled")

    def _comp(self, e):
        out = []
        saved = dict(self.env)

        def rec(i):
            if i == len(e.generators):
                out.append(self.ev(e.elt))
                return
            g = e.generators[i]
            for item in list(self.ev(g.iter)):
                self._bind(g.target, item)
                if all(self.truth(self.ev(c)) for c in g.ifs):
                    rec(i + 1)

        rec(0)
        self.env = saved
        return out

    _globals_cache: Dict[int, Any] = {}
    repo_modules: Dict[str, ast.Module] = {}  # module name -> tree, registered by the Model

    def _module_global(self, e: ast.Name):
        """the value expression of the single module-level assignment `name = <literal or call into a safe module>` of
        the module the fragment is written in (constants hoisted out of a function)"""
        n = e
        while getattr(n, "parent", None) is not None:
            n = n.parent
        if not isinstance(n, ast.Module):
            return None
        vals = []
        for st in n.body:
            if isinstance(st, ast.Assign) and any(isinstance(t, ast.Name) and t.id == e.id for t in st.targets):
                vals.append(st.value)
            elif isinstance(st, ast.AnnAssign) and isinstance(st.target, ast.Name) and st.target.id == e.id and st.value is not None:
                vals.append(st.value)
        if not vals:
            # `from <repository module> import NAME [as name]`: the constant's own module says what it is
            for st in n.body:
                if isinstance(st, ast.ImportFrom) and st.level == 0 and st.module in self.repo_modules:
                    for a in st.names:
                        if (a.asname or a.name) == e.id:
                            other = self.repo_modules[st.module]
                            for st2 in other.body:
                                if isinstance(st2, ast.Assign) and any(isinstance(t, ast.Name) and t.id == a.name for t in st2.targets):
                                    vals.append(st2.value)
                                elif isinstance(st2, ast.AnnAssign) and isinstance(st2.target, ast.Name) and st2.target.id == a.name and st2.value is not None:
                                    vals.append(st2.value)
        if len(vals) != 1:
            return None
        g = vals[0]
        if isinstance(g, ast.Call) and isinstance(g.func, ast.Attribute) and isinstance(g.func.value, ast.Name) and g.func.value.id in SAFE_MODULES and all(isinstance(a, ast.Constant) for a in g.args) and not g.keywords:
            return g
        try:
            ast.literal_eval(g)
            return g
        except (ValueError, TypeError, SyntaxError, MemoryError, RecursionError):
            pass
        # arithmetic on literals (1 << 13, 2**64 - 1, 8 * 32)
        if all(isinstance(x, (ast.Constant, ast.BinOp, ast.UnaryOp, ast.operator, ast.unaryop, ast.Tuple, ast.Load)) for x in ast.walk(g)):
            return g
        return None

    def _imports_module(self, e: ast.Name) -> bool:
        """the fragment's module (or an enclosing function) has `import <name>` for a pure standard-library module"""
        n = e
        while getattr(n, "parent", None) is not None:
            n = n.parent
            body = getattr(n, "body", None)
            if isinstance(body, list):
                for st in body:
                    if isinstance(st, ast.Import) and any((a.asname or a.name) == e.id and a.name == e.id for a in st.names):
                        return True
        return False

    def _imported_from_safe_module(self, e: ast.Name):
        """(module, attribute) when the fragment's module has `from <safe module> import <attribute> [as name]` and the attribute is a
        constant of that module (string.ascii_uppercase, math.pi ...)"""
        n = e
        while getattr(n, "parent", None) is not None:
            n = n.parent
            body = getattr(n, "body", None)
            if isinstance(body, list):
                for st in body:
                    if isinstance(st, ast.ImportFrom) and st.level == 0 and st.module in SAFE_MODULES:
                        for a in st.names:
                            if (a.asname or a.name) == e.id:
                                import importlib

                                v = getattr(importlib.import_module(st.module), a.name, None)
                                if isinstance(v, (str, bytes, int, float, tuple, frozenset)):
                                    return (st.module, a.name)
        return None

    def _ask(self, e: ast.AST) -> Any:
        try:
            v = self.oracle(e, self)
        except Unknown:
            if isinstance(e, ast.Name) and e.id in SAFE_MODULES and self._imports_module(e):
                import importlib

                return importlib.import_module(e.id)
            if isinstance(e, ast.Name):
                src = self._imported_from_safe_module(e)
                if src is not None:
                    import importlib

                    return getattr(importlib.import_module(src[0]), src[1])
            if isinstance(e, ast.Name):
                g = self._module_global(e)
                if g is not None:
                    pure_call = isinstance(g, ast.Call) and isinstance(g.func, ast.Attribute) and isinstance(g.func.value, ast.Name) and g.func.value.id in SAFE_MODULES
                    if True:  # also in permissive mode: a module constant is what its module says it is
                        key = id(g)
                        cache = MiniEval._globals_cache
                        if key not in cache:
                            cache[key] = (g, self.ev(g))
                        return cache[key][1]
            if self.permissive and isinstance(e, ast.Name):
                return Rec("name", e.id)
            raise AnalysisError(f"{self.where}: `{u(e)}` is not known to the evaluator (unrecognised input of the fragment)")
        self.consulted.append(u(e))
        return v

    def _args(self, e: ast.Call):
        args = []
        for a in e.args:
            if isinstance(a, ast.Starred):
                args.extend(self.ev(a.value))
            else:
                args.append(self.ev(a))
        kwargs = {}
        for k in e.keywords:
            if k.arg is None:
                kwargs.update(self.ev(k.value))
            else:
                kwargs[k.arg] = self.ev(k.value)
        return args, kwargs

    def _call(self, e: ast.Call) -> Any:
        f = e.func
        name = u(f)
        # the oracle may take over any call (mocked collaborators)
        try:
            v = self.oracle(e, self)
            self.consulted.append(name + "()")
            return v
        except Unknown:
            pass
        if name in ("TealOp", "pyteal.TealOp") and "TealOp" not in self.env:
            args, _kw = self._args(e)
            opname = u(e.args[1])
            if isinstance(args[1], str):
                opname = args[1]
            elif isinstance(args[1], Sym) and "name" in args[1].attrs:
                opname = args[1].attrs["name"]
            elif opname.startswith("Op."):
                opname = opname[3:]
            else:
                raise AnalysisError(f"{self.where}: op of `{u(e)}` is not a literal Op member")
            ov = OpVal(opname, args[2:])
            ov.expr = args[0]
            return ov
        if isinstance(f, ast.Name):
            if f.id == "cast" and len(e.args) == 2:
                return self.ev(e.args[1])
            if f.id == "isinstance" and len(e.args) == 2:
                v = self.ev(e.args[0])
                return self._isinstance(v, e.args[1], e)
            if f.id == "type" and len(e.args) == 1:
                v = self.ev(e.args[0])
                if isinstance(v, Sym) and "$type" in v.attrs:
                    return v.attrs["$type"]
                if isinstance(v, (int, str, list, tuple, dict, bool, bytes, bytearray, type(None), float, set)):
                    return type(v)
                # an abstract object: its class is some user class, never a builtin type
                return Sym("class:<abstract>", attrs={"classname": "<abstract>"})
            if f.id in self.env:
                fn = self.env[f.id]
                args, kwargs = self._args(e)
                return self._apply(fn, args, kwargs, e)
            try:
                fnv = self.oracle(f, self)
                args, kwargs = self._args(e)
                return self._apply(fnv, args, kwargs, e)
            except Unknown:
                pass
            if f.id in _BUILTINS:
                args, kwargs = self._args(e)
                try:
                    return _BUILTINS[f.id](*args, **kwargs)
                except (TypeError, ValueError) as ex:
                    def _concrete(v):
                        if isinstance(v, (Rec, Sym, OpVal)):
                            return False
                        if isinstance(v, (list, tuple, set, frozenset)):
                            return all(_concrete(x) for x in v)
                        if isinstance(v, dict):
                            return all(_concrete(k) and _concrete(x) for k, x in v.items())
                        return True

                    if all(_concrete(a) for a in args) and all(_concrete(v) for v in kwargs.values()):
                        # every argument is a concrete value: Python itself raises here (bytes((257, 0)), int("x"))
                        raise Raised(f"{type(ex).__name__} at `{u(e)[:50]}`: {ex}", e)
                    raise AnalysisError(f"{self.where}: builtin call `{u(e)}` failed on abstract values: {ex}")
            if self.resolver is not None:
                target = self.resolver(f.id)
                if target is not None:
                    args, kwargs = self._args(e)
                    return self.call_def(target, args, kwargs, {})
            if self.permissive:
                args, kwargs = self._args(e)
                # every constructor-like call allocates a distinct object: serial number in the name
                MiniEval.serial += 1
                return Rec("call", Rec("name", f"{f.id}#{MiniEval.serial}"), args, kwargs)
            raise AnalysisError(f"{self.where}: call `{u(e)}` is not known to the evaluator")
        fnv = self.ev(f)
        args, kwargs = self._args(e)
        return self._apply(fnv, args, kwargs, e)

    def _isinstance(self, v, cls_node, e) -> bool:
        names = [u(x) for x in cls_node.elts] if isinstance(cls_node, ast.Tuple) else [u(cls_node)]
        if isinstance(cls_node, ast.Call):
            cv = self.ev(cls_node)  # isinstance(a, type(b)): the class is computed
            if isinstance(cv, Sym) and "classname" in cv.attrs:
                names = [cv.attrs["classname"]]
            elif isinstance(cv, type):
                return isinstance(v, cv)
            else:
                raise AnalysisError(f"{self.where}: computed class in `{u(e)}` is not modelled")
        for n in names:
            pyt = {"int": int, "str": str, "list": list, "tuple": tuple, "dict": dict, "bool": bool, "bytes": bytes, "set": set}.get(n)
            if pyt is not None:
                if isinstance(v, pyt) and not (pyt is int and isinstance(v, bool) and False):
                    return True
                continue
            if self.isinstance_hook is not None:
                r = self.isinstance_hook(v, n)
                if r is True:
                    return True
                if r is False:
                    continue
            if isinstance(v, Sym) and "$isa" in v.attrs:
                if n.split(".")[-1] in v.attrs["$isa"]:
                    return True
                continue
            if isinstance(v, (int, str, list, tuple, dict, bool, bytes, type(None))):
                continue
            raise AnalysisError(f"{self.where}: cannot decide `{u(e)}` for abstract value {v!r}")
        return False

    def _apply(self, fn, args, kwargs, e):
        if isinstance(fn, Rec):
            return Rec("call", fn, args, kwargs)
        if isinstance(fn, Sym):
            if "__call__" in fn.methods:
                return fn.methods["__call__"](*args, **kwargs)
            raise AnalysisError(f"{self.where}: call of abstract object `{u(e)}`")
        if callable(fn):
            try:
                return fn(*args, **kwargs)
            except (KeyError, IndexError) as ex:
                raise Raised(f"{type(ex).__name__} in `{u(e)}`", e)
            except (ValueError, UnicodeError, OverflowError, ZeroDivisionError) as ex:
                # a library function of a safe module (base64, re, int.from_bytes, bytes.fromhex ...) or a method of a
                # builtin value rejected concrete arguments: the analysed code raises the same exception at run time
                mod = getattr(fn, "__module__", None) or getattr(getattr(fn, "__self__", None), "__class__", type(None)).__module__
                if mod in SAFE_MODULES or mod in ("builtins", "binascii", "_struct", "_codecs"):
                    raise Raised(f"{type(ex).__name__}: {ex} in `{u(e)}`", e)
                raise
        raise AnalysisError(f"{self.where}: `{u(e)}` calls a non-callable abstract value {fn!r}")

    def call_def(self, fnode, args: list, kwargs: dict, closure_env: Dict[str, Any], writeback: Optional[Dict[str, Any]] = None):
        """interpret a FunctionDef on evaluated arguments (inlined helper / closure / lambda)"""
        if self.depth > 60:
            raise AnalysisError(f"{self.where}: helper inlining depth exceeded at {getattr(fnode, 'name', '?')}")
        sub = MiniEval(self.oracle, self.where, self.permissive, self.resolver)
        sub.isinstance_hook, sub.truth_hook, sub.ctor_fields, sub.expr_compare = self.isinstance_hook, self.truth_hook, self.ctor_fields, self.expr_compare
        sub.depth = self.depth + 1
        sub.consulted = self.consulted
        sub.env = dict(closure_env)
        a = fnode.args
        pos = [x.arg for x in a.posonlyargs + a.args]
        defaults = dict(zip(pos[len(pos) - len(a.defaults):], a.defaults))
        for kw, d in zip(a.kwonlyargs, a.kw_defaults):
            if d is not None:
                defaults[kw.arg] = d
        rest = list(args)
        for n in pos:
            if rest:
                sub.env[n] = rest.pop(0)
            elif n in kwargs:
                sub.env[n] = kwargs.pop(n)
            elif n in defaults:
                sub.env[n] = sub.ev(defaults[n])
            else:
                raise AnalysisError(f"{self.where}: missing argument `{n}` calling {getattr(fnode, 'name', '?')}")
        if a.vararg:
            sub.env[a.vararg.arg] = tuple(rest)
        elif rest:
            raise AnalysisError(f"{self.where}: too many arguments calling {getattr(fnode, 'name', '?')}")
        for kw in a.kwonlyargs:
            if kw.arg in kwargs:
                sub.env[kw.arg] = kwargs.pop(kw.arg)
            elif kw.arg in defaults:
                sub.env[kw.arg] = sub.ev(defaults[kw.arg])
            else:
                raise AnalysisError(f"{self.where}: missing keyword argument `{kw.arg}`")
        if a.kwarg:
            sub.env[a.kwarg.arg] = dict(kwargs)
        elif kwargs:
            raise AnalysisError(f"{self.where}: unexpected keyword arguments {sorted(kwargs)} calling {getattr(fnode, 'name', '?')}")
        self.steps += 1
        if _has_yield(fnode):
            return _interpreted_generator(sub, fnode)
        try:
            sub.run(fnode.body)
        except _Return as r:
            self.steps += sub.steps
            return r.v
        finally:
            if writeback is not None and isinstance(getattr(fnode, "body", None), list):
                # `nonlocal x`: the enclosing function's variable is the one assigned
                for st_ in fnode.body:
                    for n_ in ast.walk(st_) if not isinstance(st_, (ast.FunctionDef, ast.AsyncFunctionDef, ast.ClassDef)) else []:
                        if isinstance(n_, ast.Nonlocal):
                            for nm in n_.names:
                                if nm in sub.env:
                                    writeback[nm] = sub.env[nm]
        self.steps += sub.steps
        return None

    # ---------------------------------------------------------------- statements
    def _bind(self, target: ast.AST, v: Any):
        if isinstance(target, ast.Name):
            self.env[target.id] = v
        elif isinstance(target, (ast.Tuple, ast.List)):
            vs = list(v)
            if any(isinstance(t, ast.Starred) for t in target.elts):
                i = [k for k, t in enumerate(target.elts) if isinstance(t, ast.Starred)][0]
                n_after = len(target.elts) - i - 1
                for t, x in zip(target.elts[:i], vs[:i]):
                    self._bind(t, x)
                self._bind(target.elts[i].value, vs[i:len(vs) - n_after])
                for t, x in zip(target.elts[i + 1:], vs[len(vs) - n_after:]):
                    self._bind(t, x)
                return
            if len(vs) != len(target.elts):
                raise AnalysisError(f"{self.where}: unpacking mismatch at `{u(target)}`")
            for t, x in zip(target.elts, vs):
                self._bind(t, x)
        elif isinstance(target, ast.Subscript):
            self.ev(target.value)[self.ev(target.slice)] = v
        elif isinstance(target, ast.Attribute):
            base = self.ev(target.value)
            if isinstance(base, Sym):
                base.attrs[target.attr] = v
            elif isinstance(base, Rec):
                base.tags[target.attr] = v
            elif isinstance(base, OpVal):
                base.tags[target.attr] = v
            else:
                raise AnalysisError(f"{self.where}: attribute store `{u(target)}`")
        else:
            raise AnalysisError(f"{self.where}: assignment target `{u(target)}` not supported")

    def run(self, body: List[ast.stmt]):
        for st in body:
            self.stmt(st)

    def stmt(self, st: ast.stmt):
        if isinstance(st, ast.Expr):
            if isinstance(st.value, ast.Constant):
                return
            self.ev(st.value)
        elif isinstance(st, ast.Assign):
            v = self.ev(st.value)
            for t in st.targets:
                self._bind(t, v)
        elif isinstance(st, ast.AnnAssign):
            if st.value is not None:
                self._bind(st.target, self.ev(st.value))
        elif isinstance(st, ast.AugAssign):
            cur = self.ev(st.target)
            v = self.ev(st.value)
            import operator as _op

            table = {ast.Add: _op.iadd, ast.Sub: _op.isub, ast.Mult: _op.imul, ast.BitOr: _op.ior, ast.BitAnd: _op.iand, ast.BitXor: _op.ixor, ast.FloorDiv: _op.ifloordiv, ast.Mod: _op.imod, ast.LShift: _op.ilshift, ast.RShift: _op.irshift}
            fn = table.get(type(st.op))
            if fn is None or isinstance(cur, (Rec, Sym)) or isinstance(v, (Rec, Sym)):
                raise AnalysisError(f"{self.where}: augmented assignment `{u(st)}`")
            try:
                # in-place operators mutate lists and sets (aliases see the change) and rebind the target, as Python does
                self._bind(st.target, fn(cur, v))
            except TypeError:
                raise AnalysisError(f"{self.where}: augmented assignment `{u(st)}` on {type(cur).__name__}")
        elif isinstance(st, ast.If):
            self.run(st.body if self.truth(self.ev(st.test)) else st.orelse)
        elif isinstance(st, ast.For):
            it = self.ev(st.iter)
            if isinstance(it, (Rec, Sym)):
                raise AnalysisError(f"{self.where}: iteration over an abstract value in `for {u(st.target)} in {u(st.iter)}`")
            for item in it:  # the object itself is iterated (lazily for generators, index-based for lists), as Python does
                self._bind(st.target, item)
                try:
                    self.run(st.body)
                except _Break:
                    break
                except _Continue:
                    continue
            else:
                self.run(st.orelse)
        elif isinstance(st, ast.While):
            n = 0
            broke = False
            while self.truth(self.ev(st.test)):
                n += 1
                if n > 10000:
                    raise AnalysisError(f"{self.where}: loop does not terminate under the abstract inputs")
                try:
                    self.run(st.body)
                except _Break:
                    broke = True
                    break
                except _Continue:
                    continue
            if not broke:
                self.run(st.orelse)  # `while ... else`: runs when the loop ends without break
        elif isinstance(st, ast.With):
            exits = []
            for it in st.items:
                v = self.ev(it.context_expr)
                entered = v
                if isinstance(v, Sym) and "__enter__" in v.methods:
                    # a modelled context manager: its enter / exit hooks run around the body, exit also when the body raises
                    entered = v.methods["__enter__"]()
                    if "__exit__" in v.methods:
                        exits.append(v.methods["__exit__"])
                if it.optional_vars is not None:
                    self._bind(it.optional_vars, entered)
            try:
                self.run(st.body)
            finally:
                for ex in reversed(exits):
                    ex(None, None, None)
        elif isinstance(st, ast.Try):
            self._try(st)
        elif isinstance(st, ast.Assert):
            if not self.truth(self.ev(st.test)):
                raise Raised(f"AssertionError: {u(st.test)}", st)
        elif isinstance(st, ast.Break):
            raise _Break()
        elif isinstance(st, ast.Continue):
            raise _Continue()
        elif isinstance(st, ast.Return):
            raise _Return(self.ev(st.value) if st.value is not None else None)
        elif isinstance(st, (ast.Pass, ast.Import, ast.ImportFrom, ast.Global, ast.Nonlocal)):
            return
        elif isinstance(st, ast.Raise):
            if st.exc is None and getattr(self, "_handling", None):
                raise self._handling[-1]  # bare `raise` inside a handler re-raises what was caught
            raise Raised(u(st.exc) if st.exc else "<reraise>", st)
        elif isinstance(st, (ast.FunctionDef, ast.AsyncFunctionDef)):
            self.env[st.name] = Closure(st, self.env, self)
        elif isinstance(st, ast.Match):
            self._match(st)
        elif isinstance(st, ast.Delete):
            for t in st.targets:
                if isinstance(t, ast.Name) and t.id in self.env:
                    del self.env[t.id]
                elif isinstance(t, ast.Subscript):
                    base = self.ev(t.value)
                    if not isinstance(base, (list, dict)):
                        raise AnalysisError(f"{self.where}: `{u(st)}` on an abstract value")
                    key = self.ev(t.slice)
                    try:
                        del base[key]
                    except (KeyError, IndexError, TypeError) as ex:
                        raise Raised(f"{type(ex).__name__}: {ex}", st)
                else:
                    raise AnalysisError(f"{self.where}: statement form not supported by the evaluator: `{u(st)[:80]}`")
        else:
            raise AnalysisError(f"{self.where}: statement form not supported by the evaluator: `{u(st)[:80]}`")

    @staticmethod
    def _exc_class(r: "Raised") -> str:
        import re as _re

        m = _re.match(r"\s*(?:[A-Za-z_][\w]*\.)*([A-Za-z_]\w*)", r.exc_text)
        return m.group(1) if m else ""

    def _handler_matches(self, h: ast.ExceptHandler, r: "Raised") -> bool:
        import builtins as _b

        if h.type is None:
            return True
        names = [u(x).split(".")[-1] for x in (h.type.elts if isinstance(h.type, ast.Tuple) else [h.type])]
        got = self._exc_class(r)
        for nm in names:
            if nm in ("Exception", "BaseException") or nm == got:
                return True
            a, b = getattr(_b, got, None), getattr(_b, nm, None)
            if isinstance(a, type) and isinstance(b, type) and issubclass(a, b):
                return True
        return False

    def _try(self, st: ast.Try):
        """try / except / else / finally as Python runs them: a Raised of the analysed code is caught by the first handler
        whose class names it (builtin hierarchy; `Exception` catches every Raised), else runs when nothing was raised,
        finally always runs - also when the body returns, breaks or continues"""
        try:
            try:
                self.run(st.body)
            except Raised as r:
                for h in st.handlers:
                    if self._handler_matches(h, r):
                        if h.name:
                            msg = r.exc_text
                            rn = getattr(r, "node", None)
                            if isinstance(rn, ast.Raise) and isinstance(rn.exc, ast.Call) and len(rn.exc.args) == 1 and isinstance(rn.exc.args[0], ast.Constant) and isinstance(rn.exc.args[0].value, str):
                                msg = rn.exc.args[0].value  # str(e) of an exception raised with one literal message
                            self.env[h.name] = Sym(f"exception:{self._exc_class(r)}", attrs={"args": (msg,), "$isa": {self._exc_class(r), "Exception"}}, methods={"__str__": lambda msg=msg: msg})
                        self._handling = getattr(self, "_handling", []) + [r]
                        try:
                            self.run(h.body)
                        finally:
                            self._handling = self._handling[:-1]
                        break
                else:
                    raise
            else:
                self.run(st.orelse)
        finally:
            self.run(st.finalbody)

    def _match(self, st: ast.Match):
        subj = self.ev(st.subject)
        for c in st.cases:
            if self._pat(c.pattern, subj) and (c.guard is None or self.truth(self.ev(c.guard))):
                self.run(c.body)
                return

    def _pat(self, p, v) -> bool:
        if isinstance(p, ast.MatchAs):
            if p.pattern is not None and not self._pat(p.pattern, v):
                return False
            if p.name is not None:
                self.env[p.name] = v
            return True
        if isinstance(p, ast.MatchValue):
            return self.ev(p.value) == v
        if isinstance(p, ast.MatchSingleton):
            return v is p.value
        if isinstance(p, ast.MatchSequence):
            if not isinstance(v, (list, tuple)):
                return False
            if any(isinstance(x, ast.MatchStar) for x in p.patterns):
                raise AnalysisError(f"{self.where}: star pattern")
            if len(v) != len(p.patterns):
                return False
            return all(self._pat(pp, vv) for pp, vv in zip(p.patterns, v))
        if isinstance(p, ast.MatchOr):
            return any(self._pat(pp, v) for pp in p.patterns)
        if isinstance(p, ast.MatchClass):
            ok = self._isinstance(v, p.cls, p.cls)
            if not ok:
                return False
            if p.patterns:
                raise AnalysisError(f"{self.where}: positional class pattern `{u(p)}`")
            for k, pp in zip(p.kwd_attrs, p.kwd_patterns):
                if not self._pat(pp, self.getattr(v, k, p.cls)):
                    return False
            return True
        raise AnalysisError(f"{self.where}: match pattern `{u(p)}` not supported")


# -------------------------------------------------------------------------------- stack machine
class StackError(Exception):
    pass


class Stack:
    """abstract AVM data stack of named cells + scratch memory, for permutation/copy ops, load/store,
    and ops given by a (pops, pushes) signature"""

    def __init__(self, cells: List[Any]):
        self.s = list(cells)
        self.mem: Dict[Any, Any] = {}
        self.fresh = itertools.count()

    def need(self, n: int, what: str):
        if len(self.s) < n:
            raise StackError(f"{what}: needs {n} value(s), stack has {len(self.s)}")

    def apply(self, op: str, args: List[Any], sig: Optional[dict] = None):
        s = self.s
        if op == "load":
            s.append(self.mem.get(args[0], ("init", args[0])))
        elif op == "store":
            self.need(1, "store")
            self.mem[args[0]] = s.pop()
        elif op == "cover":
            n = args[0]
            self.need(n + 1, f"cover {n}")
            v = s.pop()
            s.insert(len(s) - n, v)
        elif op == "uncover":
            n = args[0]
            self.need(n + 1, f"uncover {n}")
            v = s.pop(len(s) - 1 - n)
            s.append(v)
        elif op == "dig":
            n = args[0]
            self.need(n + 1, f"dig {n}")
            s.append(s[-1 - n])
        elif op == "bury":
            n = args[0]
            self.need(n + 1, f"bury {n}")
            v = s.pop()
            s[len(s) - n] = v
        elif op == "swap":
            self.need(2, "swap")
            s[-1], s[-2] = s[-2], s[-1]
        elif op == "pop":
            self.need(1, "pop")
            s.pop()
        elif op == "dup":
            self.need(1, "dup")
            s.append(s[-1])
        elif op == "dup2":
            self.need(2, "dup2")
            s.extend(s[-2:])
        elif op == "dupn":
            self.need(1, "dupn")
            s.extend([s[-1]] * args[0])
        elif op == "popn":
            self.need(args[0], "popn")
            del s[len(s) - args[0]:]
        elif sig is not None:
            k = len(sig["pops"])
            self.need(k, op)
            popped = s[len(s) - k:] if k else []
            del s[len(s) - k:]
            for i, t in enumerate(sig["pushes"]):
                s.append((op, tuple(popped), i))
        else:
            raise AnalysisError(f"abstract stack machine: no signature for op `{op}`")


def run_function(fnode: ast.AST, args: Dict[str, Any], oracle: Callable, where: str = "", permissive: bool = False, resolver=None, setup: Optional[Callable[["MiniEval"], None]] = None) -> Tuple[Any, "MiniEval"]:
    """evaluate the body of a function definition on abstract arguments; returns (value, evaluator)"""
    me = MiniEval(oracle, where, permissive, resolver)
    if setup is not None:
        setup(me)
    a = fnode.args
    names = [x.arg for x in a.posonlyargs + a.args + a.kwonlyargs]
    defaults = dict(zip([x.arg for x in (a.posonlyargs + a.args)][len(a.posonlyargs + a.args) - len(a.defaults):], a.defaults))
    for kw, d in zip(a.kwonlyargs, a.kw_defaults):
        if d is not None:
            defaults[kw.arg] = d
    for n in names:
        if n in args:
            me.env[n] = args[n]
        elif n in defaults:
            me.env[n] = me.ev(defaults[n])
        else:
            raise AnalysisError(f"{where}: parameter `{n}` has no abstract value")
    if a.vararg is not None:
        me.env[a.vararg.arg] = tuple(args.get(a.vararg.arg, ()))
    if a.kwarg is not None:
        me.env[a.kwarg.arg] = dict(args.get(a.kwarg.arg, {}))
    try:
        me.run(fnode.body)
    except _Return as r:
        return r.v, me
    return None, me


def no_oracle(e, me):
    raise Unknown()


def model_ctor_fields(model):
    """class name -> (positional __init__ parameter names without self, {attribute: parameter}) for the
    `self.<attr> = <param>` assignments of the class's __init__ (annotated or not)"""
    cache: Dict[str, Any] = {}

    def look(name: str):
        if name in cache:
            return cache[name]
        out = None
        c = model.try_class(name.split(".")[-1])
        if c is not None:
            init = model.resolve_method(c, "__init__")
            if init is not None:
                a = init.node.args
                params = [x.arg for x in a.posonlyargs + a.args][1:]
                allp = set(params) | {x.arg for x in a.kwonlyargs}
                mapping = {}
                for st in ast.walk(init.node):
                    tgt = val = None
                    if isinstance(st, ast.Assign) and len(st.targets) == 1:
                        tgt, val = st.targets[0], st.value
                    elif isinstance(st, ast.AnnAssign) and st.value is not None:
                        tgt, val = st.target, st.value
                    if isinstance(tgt, ast.Attribute) and isinstance(tgt.value, ast.Name) and tgt.value.id == "self" and isinstance(val, ast.Name) and val.id in allp:
                        mapping[tgt.attr] = val.id
                out = (params, mapping)
        cache[name] = out
        return out

    return look
