"""Query helpers for the pattern rules: locating anchors fail-closed, structured guards of a node,
single-definition resolution of locals, normalised comparison of expressions."""
from __future__ import annotations

import ast
from typing import Callable, Dict, Iterable, Iterator, List, Optional, Sequence, Tuple

from .astutil import (
    Guard,
    ancestors,
    attr_chain,
    block_always_exits,
    calls_in,
    dominating,
    enclosing_stmt,
    u,
    walk_local,
    unconditional_calls,
)
from .model import AnalysisError, ClassInfo, FuncInfo, Model


def fn(model: Model, qual: str, mod: Optional[str] = None) -> FuncInfo:
    return model.find_func(qual, mod)


def cls(model: Model, name: str, mod: Optional[str] = None) -> ClassInfo:
    return model.find_class(name, mod)


def last_name(c: ast.Call) -> str:
    f = c.func
    if isinstance(f, ast.Attribute):
        return f.attr
    if isinstance(f, ast.Name):
        return f.id
    return u(f)


def calls_named(node: ast.AST, *names: str, into_nested: bool = True) -> List[ast.Call]:
    return [c for c in calls_in(node, into_nested) if last_name(c) in names]


def need(cond, msg: str):
    if not cond:
        raise AnalysisError(msg)
    return cond


def one(items: Sequence, msg: str):
    if len(items) != 1:
        raise AnalysisError(f"{msg}: expected exactly one, found {len(items)}")
    return items[0]


def guards(node: ast.AST) -> List[Tuple[str, bool]]:
    """[(test text, polarity)] known to hold at node (branch arms and earlier exits)"""
    _s, gs = dominating(node)
    return [(u(g.expr), g.polarity) for g in gs]


def guard_objs(node: ast.AST) -> List[Guard]:
    return dominating(node)[1]


def dom_stmts(node: ast.AST) -> List[ast.stmt]:
    return dominating(node)[0]


def dominates(a: ast.AST, b: ast.AST) -> bool:
    """statement a (or the statement holding node a) is executed on every path reaching b"""
    sa = a if isinstance(a, ast.stmt) else enclosing_stmt(a)
    if any(s is sa for s in dom_stmts(b)):
        # a call nested in an `if` body of sa would not count; require it to be unconditional in sa
        if isinstance(a, ast.Call):
            return any(c is a for c in unconditional_calls(sa))
        return True
    sb = b if isinstance(b, ast.stmt) else enclosing_stmt(b)
    if sa is sb and isinstance(a, ast.Call) and isinstance(b, ast.AST):
        # same statement: evaluation order by position
        return (a.end_lineno, a.end_col_offset) <= (getattr(b, "lineno", 0), getattr(b, "col_offset", 0)) or _is_argument_of(a, b)
    return False


def _is_argument_of(a: ast.AST, b: ast.AST) -> bool:
    return any(x is b for x in ancestors(a))


def before(a: ast.AST, b: ast.AST) -> bool:
    """source position order (used only between statements of the same straight-line block)"""
    return (a.lineno, a.col_offset) < (b.lineno, b.col_offset)


def assigns_to(fnode: ast.AST, name: str) -> List[ast.AST]:
    """value expressions assigned to local `name` anywhere in the function (not nested defs)"""
    out = []
    for n in walk_local(fnode):
        if isinstance(n, ast.Assign):
            for t in n.targets:
                if isinstance(t, ast.Name) and t.id == name:
                    out.append(n.value)
                elif isinstance(t, (ast.Tuple, ast.List)):
                    for i, e in enumerate(t.elts):
                        if isinstance(e, ast.Name) and e.id == name:
                            if isinstance(n.value, (ast.Tuple, ast.List)) and len(n.value.elts) == len(t.elts):
                                out.append(n.value.elts[i])
                            else:
                                out.append(ast.Subscript(value=n.value, slice=ast.Constant(value=i), ctx=ast.Load()))
        elif isinstance(n, ast.AnnAssign) and isinstance(n.target, ast.Name) and n.target.id == name and n.value is not None:
            out.append(n.value)
        elif isinstance(n, ast.AugAssign) and isinstance(n.target, ast.Name) and n.target.id == name:
            out.append(ast.BinOp(left=ast.Name(id=name, ctx=ast.Load()), op=n.op, right=n.value))
        elif isinstance(n, ast.NamedExpr) and n.target.id == name:
            out.append(n.value)
        elif isinstance(n, (ast.For, ast.comprehension)):
            for e in ast.walk(n.target):
                if isinstance(e, ast.Name) and e.id == name:
                    out.append(ast.Call(func=ast.Name(id="$each", ctx=ast.Load()), args=[n.iter], keywords=[]))
        elif isinstance(n, ast.With):
            for it in n.items:
                if it.optional_vars is not None:
                    for e in ast.walk(it.optional_vars):
                        if isinstance(e, ast.Name) and e.id == name:
                            out.append(ast.Call(func=ast.Name(id="$with", ctx=ast.Load()), args=[it.context_expr], keywords=[]))
    return out


def _is_marker(e: ast.AST) -> bool:
    return isinstance(e, ast.Call) and isinstance(e.func, ast.Name) and e.func.id in ("$each", "$with")


def strip_cast(e: ast.AST) -> ast.AST:
    while isinstance(e, ast.Call) and isinstance(e.func, ast.Name) and e.func.id == "cast" and len(e.args) == 2:
        e = e.args[1]
    return e


def resolve_local(fnode: ast.AST, e: ast.AST, depth: int = 0, params: Optional[set] = None) -> ast.AST:
    """substitute locals that have exactly one definition in the function by that definition
    (recursively); locals with several definitions and parameters stay as names"""
    if depth > 8:
        return e
    if params is None:
        a = fnode.args
        params = {x.arg for x in a.posonlyargs + a.args + a.kwonlyargs}

    class R(ast.NodeTransformer):
        def visit_Name(self, node):
            if isinstance(node.ctx, ast.Load) and node.id not in params:
                ds = assigns_to(fnode, node.id)
                if len(ds) == 1 and not _is_marker(ds[0]) and not any(isinstance(x, ast.Name) and x.id == node.id for x in ast.walk(ds[0])):
                    return resolve_local(fnode, strip_cast(ds[0]), depth + 1, params)
            return node

        def visit_Call(self, node):
            node = strip_cast(node)
            if not isinstance(node, ast.Call):
                return self.visit(node)
            return self.generic_visit(node)

    from .pe import clone

    return R().visit(clone(strip_cast(e)))


def rtext(fnode: ast.AST, e: ast.AST) -> str:
    return u(resolve_local(fnode, e))


def returns_of(fnode: ast.AST) -> List[ast.Return]:
    return [n for n in walk_local(fnode) if isinstance(n, ast.Return)]


def raises_of(fnode: ast.AST) -> List[ast.Raise]:
    return [n for n in walk_local(fnode) if isinstance(n, ast.Raise)]


def raise_type(r: ast.Raise) -> str:
    e = r.exc
    if e is None:
        return "<reraise>"
    if isinstance(e, ast.Call):
        return u(e.func).split(".")[-1]
    return u(e).split(".")[-1]


def stmt_index(body: List[ast.stmt], node: ast.AST) -> int:
    """index in `body` of the statement that contains node"""
    for i, s in enumerate(body):
        if s is node or any(x is node for x in ast.walk(s)):
            return i
    return -1


def compare_parts(test: ast.AST) -> Optional[Tuple[str, str, str]]:
    """(left text, operator, right text) for a single comparison"""
    if isinstance(test, ast.Compare) and len(test.ops) == 1:
        return u(test.left), type(test.ops[0]).__name__, u(test.comparators[0])
    return None


def const_of(model: Model, f: FuncInfo, e: ast.AST):
    """(ok, value) - constant value of an expression seen from function f (module constants,
    imports and class attributes followed)"""
    from .astutil import try_const

    ok, v = try_const(model, f.module, e)
    if ok:
        return True, v
    ch = attr_chain(e)
    if ch:
        r = model.resolve_in_func(f, ch)
        if isinstance(r, tuple) and r[0] == "const":
            return try_const(model, r[1], r[2])
        if isinstance(r, tuple) and r[0] == "classattr":
            return try_const(model, r[1].module, r[1].class_attrs[r[2]])
    return False, None


_NEG = {ast.NotEq: ast.Eq, ast.IsNot: ast.Is, ast.NotIn: ast.In}


def norm_test(t: ast.AST, pol: bool = True) -> Tuple[str, bool]:
    """canonical (text, polarity): `not X` -> (X, !pol); a != b -> (a == b, !pol); is not -> is; not in -> in"""
    while isinstance(t, ast.UnaryOp) and isinstance(t.op, ast.Not):
        t, pol = t.operand, not pol
    if isinstance(t, ast.Compare) and len(t.ops) == 1 and type(t.ops[0]) in _NEG:
        t = ast.Compare(left=t.left, ops=[_NEG[type(t.ops[0])]()], comparators=t.comparators)
        pol = not pol
    return u(t), pol


def nguards(node: ast.AST, kinds: Optional[Sequence[str]] = None) -> List[Tuple[str, bool]]:
    """normalised guards at node; `kinds` filters on Guard.kind ('branch' | 'exit' | 'assert')"""
    return [norm_test(g.expr, g.polarity) for g in dominating(node)[1] if kinds is None or g.kind in kinds]


def name_assigned_from(fnode: ast.AST, pred, what: str) -> str:
    """the local name that is assigned a value satisfying `pred(value_expr)` (e.g. the result of a given call);
    AnalysisError if there is none or several - used to discover a variable by its role instead of by its spelling"""
    hits = []
    for n in walk_local(fnode):
        tgt = val = None
        if isinstance(n, ast.Assign) and len(n.targets) == 1:
            tgt, val = n.targets[0], n.value
        elif isinstance(n, ast.AnnAssign) and n.value is not None:
            tgt, val = n.target, n.value
        if tgt is None:
            continue
        if isinstance(tgt, ast.Name) and pred(strip_cast(val)):
            hits.append(tgt.id)
        elif isinstance(tgt, (ast.Tuple, ast.List)) and isinstance(val, (ast.Tuple, ast.List)) and len(tgt.elts) == len(val.elts):
            for t, v in zip(tgt.elts, val.elts):
                if isinstance(t, ast.Name) and pred(strip_cast(v)):
                    hits.append(t.id)
    hits = sorted(set(hits))
    if len(hits) != 1:
        raise AnalysisError(f"cannot identify {what}: {len(hits)} candidate local(s) {hits}")
    return hits[0]


def is_call_to(*names):
    def pred(v):
        return isinstance(v, ast.Call) and last_name(v) in names

    return pred


def rguards(fnode: ast.AST, node: ast.AST, kinds=None) -> List[Tuple[str, bool]]:
    """normalised guards at node with single-definition locals resolved (spelling-independent)"""
    out = []
    for g in dominating(node)[1]:
        if kinds is not None and g.kind not in kinds:
            continue
        r = resolve_local(fnode, g.expr)
        out.append(norm_test(r, g.polarity))
    return out
