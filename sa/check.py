"""CLI:  python -m sa.check Cnn --tier quick|thorough [--root /repo]

exit 0: every armed rule instance holds (known findings are printed as KNOWN-FINDING lines)
exit 1: a line `VIOLATION property=Cnn replay=<path>` per new finding
exit 2: ANALYSIS-ERROR (anchor vanished, idiom not recognised, vacuous rule) - never a VIOLATION
"""
from __future__ import annotations

import argparse
import importlib
import json
import os
import sys
import traceback

from .model import AnalysisError, Model
from .report import Ctx, finish, VERIF


def main(argv=None) -> int:
    ap = argparse.ArgumentParser()
    ap.add_argument("prop")
    ap.add_argument("--tier", default=os.environ.get("VERIF_TIER", "quick"), choices=["quick", "thorough"])
    ap.add_argument("--root", default=os.environ.get("VERIF_ROOT", "/repo"))
    ap.add_argument("--explain", default=None, help="print a stored report")
    ap.add_argument("--no-evidence", action="store_true", help="do not write evidence/ or reports/ (self-test on scratch copies)")
    args = ap.parse_args(argv)
    if args.explain:
        print(json.dumps(json.load(open(args.explain)), indent=1))
        return 0
    prop = args.prop.upper()
    seed = int(os.environ.get("VERIF_SEED", "0") or 0)
    ctx = None
    try:
        model = Model(args.root)
        ctx = Ctx(prop, args.tier, model, seed)
        ctx.write = not args.no_evidence
        mod = importlib.import_module(f"rules.{prop.lower()}")
        explanation = mod.run(ctx)
        return finish(ctx, explanation, getattr(mod, "LEVEL", "other"))
    except AnalysisError as e:
        print(f"ANALYSIS-ERROR property={prop}: {e}")
        # violations established by the rules that ran before the analysis broke down are still violations
        if ctx is not None and ctx.findings:
            ctx.write = False
            rc = finish(ctx, "analysis incomplete: " + str(e)[:200], "other")
            if rc == 1:
                return 1
        return 2
    except Exception:
        traceback.print_exc()
        print(f"ANALYSIS-ERROR property={prop}: internal error in the checker (see traceback)")
        if ctx is not None and ctx.findings:
            ctx.write = False
            if finish(ctx, "analysis incomplete: internal error", "other") == 1:
                return 1
        return 2


if __name__ == "__main__":
    sys.path.insert(0, VERIF)
    sys.exit(main())
