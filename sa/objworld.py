"""Objects built by interpreting the repository's own classes: constructors, methods, super() through the MRO,
class attributes, classmethods/staticmethods and enumerations are evaluated from the class definitions of the model,
so that a rule exercises the code under analysis rather than a hand-written stand-in."""
from __future__ import annotations

import ast
from typing import Any, Dict, Optional

from .astutil import u, try_const
from .minieval import MiniEval, Raised, Rec, Sym, Unknown, run_function
from .model import AnalysisError, ClassInfo


class IntEnumMember(int):
    """a member of an IntEnum / IntFlag of the analysed code: an int, but not of type int"""

    def __new__(cls, value, enum_name="", member=""):
        obj = int.__new__(cls, value)
        obj.enum_name, obj.member, obj.value, obj.name = enum_name, member, int(value), member
        return obj

    def __repr__(self):
        return f"{self.enum_name}.{self.member}"


class ObjWorld:
    def __init__(self, model, modules=(), real_classes=(), where="obj-world"):
        self.model = model
        self.me: Optional[MiniEval] = None
        self.class_syms: Dict[str, Sym] = {}
        self.helpers: Dict[str, Any] = {}
        self.consts: Dict[str, Any] = {}
        for mn in modules:
            m = self.model.modules.get(mn)
            if m is None:
                continue
            mine: Dict[str, Any] = {}
            for f in m.all_funcs:
                if f.cls is None and "<locals>" not in f.qualname and not any(d.split(".")[-1] == "overload" for d in f.decorators()):
                    mine[f.name] = f.node  # a later definition in the module replaces an earlier one, as at import time
            for k, v in mine.items():
                self.helpers.setdefault(k, v)
            for k, v in m.assigns.items():
                ok, c = try_const(self.model, m, v)
                if ok and isinstance(c, (int, str, tuple, list, frozenset, set, bytes)):
                    self.consts.setdefault(k, c)
        self.instances: Dict[str, Sym] = {}
        self.real_classes: set = set(real_classes)
        self.real_bases: set = set()  # every class deriving from one of these is built from its own definition
        self.me = MiniEval(self.oracle(), where, permissive=True, resolver=self.resolver)
        self.setup(self.me)

    # ------------------------------------------------------------------ real type specs
    def class_sym(self, cname: str) -> Sym:
        if cname in self.class_syms:
            return self.class_syms[cname]
        c = self.model.find_class(cname)
        s = Sym("class:" + cname, attrs={"classname": cname, "$class": c})
        s.methods["__call__"] = lambda *a, **k: self.construct(cname, list(a), k)
        self.class_syms[cname] = s
        for k in reversed(self.model.mro(c)):
            for an, av in k.class_attrs.items():
                ok, cv = try_const(self.model, k.module, av)
                if ok and isinstance(cv, (int, str, bool, type(None))):
                    s.attrs[an] = cv
            for nm, fi in k.methods.items():
                decs = fi.decorators()
                if "classmethod" in decs:
                    s.methods[nm] = (lambda fi: lambda *a, **kw: self.me.call_def(fi.node, [s] + list(a), dict(kw), {"$cls": fi.cls}))(fi)
                elif "staticmethod" in decs:
                    s.methods[nm] = (lambda fi: lambda *a, **kw: self.me.call_def(fi.node, list(a), dict(kw), {"$cls": fi.cls}))(fi)
        return s

    def construct(self, cname: str, args: list, kwargs: dict) -> Sym:
        c = self.model.find_class(cname)
        key = None
        if not args and not kwargs:
            key = cname
            if key in self.instances:
                return self.instances[key]
        inst = Sym(f"<{cname}>", attrs={"$isa": {k.name for k in self.model.mro(c)}, "$type": self.class_sym(cname), "$class": c})
        self.bind_methods(inst, c)
        init = self.model.resolve_method(c, "__init__")
        if init is not None:
            self.call_method(inst, init, args, kwargs)
        if key:
            self.instances[key] = inst
        return inst

    def bind_methods(self, inst: Sym, c: ClassInfo):
        for k in reversed(self.model.mro(c)):
            for nm, fi in k.methods.items():
                if nm == "__init__":
                    continue
                inst.methods[nm] = (lambda fi: lambda *a, **kw: self.call_method(inst, fi, list(a), kw))(fi)

    def call_method(self, inst: Sym, fi, args: list, kwargs: dict):
        return self.me.call_def(fi.node, [inst] + list(args), dict(kwargs), {"$cls": fi.cls, "$self": inst})

    # ------------------------------------------------------------------ oracle
    def oracle(self, extra=None):
        def o(e, me):
            t = u(e)
            if isinstance(e, ast.Call) and t == "super()":
                cls = me.env.get("$cls")
                selfs = me.env.get("$self")
                if cls is None or selfs is None:
                    raise Unknown()
                mro = self.model.mro(selfs.attrs["$class"])
                idx = [i for i, k in enumerate(mro) if k is cls]
                rest = mro[idx[0] + 1:] if idx else mro[1:]
                sup = Sym("super")
                for k in reversed(rest):
                    for nm, fi in k.methods.items():
                        sup.methods[nm] = (lambda fi: lambda *a, **kw: self.call_method(selfs, fi, list(a), kw))(fi)
                sup.methods.setdefault("__init__", lambda *a, **k: None)
                return sup
            if extra is not None:
                try:
                    return extra(e, me)
                except Unknown:
                    pass
            if isinstance(e, ast.Call) and u(e.func) == "Int" and len(e.args) == 1 and not e.keywords and self.model.try_class("Int") is not None:
                v = me.ev(e.args[0])
                if isinstance(v, int):
                    # the Int constructor's own checks decide whether this Python value is accepted
                    init = self.model.find_class("Int", "pyteal.ast.int").methods["__init__"]
                    probe = Sym("int-under-construction")
                    sub = MiniEval(lambda x, m: Sym("super", methods={"__init__": lambda: None}) if isinstance(x, ast.Call) and u(x) == "super()" else (_ for _ in ()).throw(Unknown()), "Int.__init__", permissive=True)
                    sub.call_def(init.node, [probe, v], {}, {})
                    MiniEval.serial += 1
                    return Rec("call", Rec("name", f"Int#{MiniEval.serial}"), [probe.attrs.get("value", v)], {})
            if isinstance(e, ast.Name):
                if e.id in self.consts:
                    return self.consts[e.id]
                if (e.id.endswith("TypeSpec") or e.id in self.real_classes) and self.model.try_class(e.id) is not None:
                    return self.class_sym(e.id)
                if self.real_bases:
                    c0 = self.model.try_class(e.id)
                    if c0 is not None and any(k.name in self.real_bases for k in self.model.mro(c0)):
                        return self.class_sym(e.id)
                c = self.model.try_class(e.id)
                if c is not None and any(b.split(".")[-1] in ("Enum", "IntEnum", "Flag", "IntFlag") for b in c.base_exprs):
                    if e.id not in self.class_syms:
                        es = Sym(e.id)
                        for k, v in c.class_attrs.items():
                            ok, cv = try_const(self.model, c.module, v)
                            if ok:
                                es.attrs[k] = IntEnumMember(cv, e.id, k) if "Int" in "".join(c.base_exprs) and isinstance(cv, int) else Sym(f"{e.id}.{k}", attrs={"value": cv, "name": k})
                        self.class_syms[e.id] = es
                    return self.class_syms[e.id]
            raise Unknown()

        return o

    def setup(self, me):
        self.me = me
        me.expr_compare = True

        def isa(v, cname):
            cname = cname.split(".")[-1]
            if isinstance(v, Sym) and "$isa" in v.attrs:
                return cname in v.attrs["$isa"]
            if isinstance(v, Rec):
                return cname == "Expr"
            if isinstance(v, (list, tuple)) and (cname.endswith("Sequence") or cname in ("Collection", "Iterable", "Sized")):
                return True  # collections.abc.Sequence under whatever alias it was imported
            if isinstance(v, (list, tuple, dict, set, int, str, bytes, bytearray)) and cname in ("list", "tuple", "dict", "set", "int", "str", "bytes", "bytearray"):
                return type(v).__name__ == cname or (cname == "int" and isinstance(v, bool))
            return None

        me.isinstance_hook = isa

    def resolver(self, nm):
        return self.helpers.get(nm)

    def run(self, fnode, args, extra=None, where=""):
        return run_function(fnode, args, self.oracle(extra), where, permissive=True, resolver=self.resolver, setup=self.setup)
