"""E2 - extraction of the repository's own tables from the syntax tree (never by import):
the Op enum, field enums, TealType, CallConfig, ..."""
from __future__ import annotations

import ast
from typing import Dict, List, Optional, Tuple

from .astutil import u, try_const, attr_chain
from .model import AnalysisError, ClassInfo, Model


def mode_letters(node: ast.AST) -> str:
    """Mode.Signature | Mode.Application -> 'SA'"""
    names = set()
    for n in ast.walk(node):
        if isinstance(n, ast.Attribute) and isinstance(n.value, ast.Name) and n.value.id == "Mode":
            names.add(n.attr)
    s = ""
    if "Signature" in names:
        s += "S"
    if "Application" in names:
        s += "A"
    return s


def op_table(model: Model) -> Dict[str, dict]:
    """member name -> {teal, modes, v, line}"""
    c = model.find_class("Op", "pyteal.ir.ops")
    out: Dict[str, dict] = {}
    for st in c.node.body:
        if isinstance(st, ast.Assign) and len(st.targets) == 1 and isinstance(st.targets[0], ast.Name):
            v = st.value
            if isinstance(v, ast.Call) and u(v.func) == "OpType":
                if len(v.args) != 3:
                    raise AnalysisError(f"Op.{st.targets[0].id}: OpType(...) is not the 3-argument literal form")
                ok1, teal = try_const(model, c.module, v.args[0])
                ok3, ver = try_const(model, c.module, v.args[2])
                if not (ok1 and ok3):
                    raise AnalysisError(f"Op.{st.targets[0].id}: non-literal OpType row")
                out[st.targets[0].id] = {"teal": teal, "modes": mode_letters(v.args[1]), "v": ver, "line": st.lineno}
    if len(out) < 150:
        raise AnalysisError(f"Op enum: only {len(out)} rows extracted")
    return out


def enum_rows(model: Model, c: ClassInfo) -> Dict[str, Tuple[list, int]]:
    """Enum members whose value is a literal tuple -> member -> ([values...], line); values are
    python constants, or strings like 'TealType.bytes' for non-constant expressions."""
    out = {}
    for st in c.node.body:
        if isinstance(st, ast.Assign) and len(st.targets) == 1 and isinstance(st.targets[0], ast.Name):
            v = st.value
            if isinstance(v, ast.Tuple):
                vals = []
                for e in v.elts:
                    if isinstance(e, ast.Attribute):  # TealType.bytes, Op.x: keep symbolic
                        vals.append(u(e))
                        continue
                    ok, cv = try_const(model, c.module, e)
                    vals.append(cv if ok else u(e))
                out[st.targets[0].id] = (vals, st.lineno)
    return out


def enum_init_params(c: ClassInfo) -> List[str]:
    init = c.methods.get("__init__")
    if init is None:
        raise AnalysisError(f"{c.fq}: enum without __init__")
    return init.params()[1:]


def teal_type_letter(text: str) -> str:
    t = text.split(".")[-1]
    return {"uint64": "u", "bytes": "b", "anytype": "a", "none": "-"}.get(t, "?")


def field_enum(model: Model, cname: str, prefer: Optional[str] = None) -> Dict[str, dict]:
    """member -> {name, type, v, array, line} using the enum's own __init__ parameter names"""
    c = model.find_class(cname, prefer)
    params = enum_init_params(c)
    rows = enum_rows(model, c)
    out = {}
    for mem, (vals, line) in rows.items():
        if len(vals) != len(params):
            raise AnalysisError(f"{c.fq}.{mem}: tuple arity {len(vals)} != __init__ arity {len(params)}")
        d = dict(zip(params, vals))
        row = {"line": line, "raw": d}
        for k, v in d.items():
            lk = k.lower()
            if lk in ("name", "arg_name", "argname"):
                row["name"] = v
            elif lk in ("type", "ret_type", "ttype"):
                row["type"] = teal_type_letter(str(v))
            elif lk in ("min_version", "minversion", "version"):
                row["v"] = v
            elif lk in ("is_array", "isarray"):
                row["array"] = v
        out[mem] = row
    return out
