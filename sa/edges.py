"""E5 - edge facts of a block-building function, from the def-use result of sa.pe.

Roles
  S(x) / E(x)        start / end block of the lowering of child expression x  (x.__teal__(options)[0/1])
  N<k>[ops]          a new TealSimpleBlock allocated at site k with the literal op list `ops`
  C<k>               a new TealConditionalBlock allocated at site k
  breaks / continues the lists returned by options.exitLoop()
  prev:/last:/first: value carried from the previous / last / first iteration of the enclosing loop
  None
Facts
  (src, 'next'|'true'|'false', dst)     from setNextBlock / setTrueBlock / setFalseBlock / .nextBlock = ...
  ('ret', start, end)                   the returned pair
  ('reg', 'break'|'continue', role)     options.addLoopBreakBlock / addLoopContinueBlock
  ('order', a, b)                       enterLoop precedes every child lowering, exitLoop follows them
"""
from __future__ import annotations

import ast
import itertools
import re
from typing import Dict, List, Optional, Set, Tuple

from .astutil import u
from .pe import Result, alts, is_phi, _site_of

EDGE_METHODS = {"setNextBlock": "next", "setTrueBlock": "true", "setFalseBlock": "false", "$set_nextBlock": "next", "$set_trueBlock": "true", "$set_falseBlock": "false"}


def _strip_tag(e):
    tag = ""
    while isinstance(e, ast.Call) and isinstance(e.func, ast.Name) and e.func.id in ("$prev", "$last", "$first"):
        tag = e.func.id[1:] + ":"
        e = e.args[0]
    return tag, e


def op_text(e: ast.AST) -> str:
    """TealOp(self, Op.err) -> 'err' ; TealOp(self, Op.dig, 1) -> 'dig 1'"""
    if isinstance(e, ast.Call) and u(e.func) == "TealOp" and len(e.args) >= 2:
        op = u(e.args[1])
        op = op[3:] if op.startswith("Op.") else op
        return " ".join([op] + [u(a) for a in e.args[2:]])
    return "?" + u(e)


def child_text(e: ast.AST) -> str:
    t = u(e)
    t = t.replace("$each", "each").replace("$p_", "")
    return t


class Roles:
    def __init__(self, res: Result):
        self.res = res
        self.new_blocks: Dict[int, str] = {}  # site id -> descriptor

    def role(self, e: ast.AST) -> Set[str]:
        out: Set[str] = set()
        for a in alts(e):
            out.add(self._one(a))
        return out

    def _one(self, e: ast.AST) -> str:
        tag, e = _strip_tag(e)
        if isinstance(e, ast.Constant) and e.value is None:
            return "None"
        if isinstance(e, ast.Name) and e.id == "$undef":
            return "None"
        k = _site_of(e)
        if k is not None and k in self.res.sites:
            c = self.res.sites[k]
            fn = u(c.func)
            if fn.endswith("TealSimpleBlock"):
                ops = c.args[0] if c.args else None
                if isinstance(ops, ast.List):
                    desc = "N[" + "; ".join(self._op(x) for x in ops.elts) + "]"
                else:
                    desc = "N[?" + (u(ops) if ops is not None else "") + "]"
                self.new_blocks[k] = desc
                return f"{tag}{desc}#{k}"
            if fn.endswith("TealConditionalBlock"):
                self.new_blocks[k] = "C"
                return f"{tag}C#{k}"
            return f"{tag}call:{child_text(c)}"
        if isinstance(e, ast.Subscript) and isinstance(e.slice, ast.Constant) and e.slice.value in (0, 1):
            base = e.value
            kb = _site_of(base)
            if kb is not None and kb in self.res.sites:
                c = self.res.sites[kb]
                fn = c.func
                if isinstance(fn, ast.Attribute) and fn.attr == "__teal__":
                    recv = fn.value
                    kr = _site_of(recv)
                    if kr is not None and kr in self.res.sites:
                        recv_t = "new:" + child_text(self.res.sites[kr])
                    else:
                        recv_t = child_text(recv)
                    return f"{tag}{'S' if e.slice.value == 0 else 'E'}({recv_t})"
                if u(fn).endswith("FromOp"):
                    args = ", ".join([self._op(c.args[1])] + [child_text(a) for a in c.args[2:]]) if len(c.args) >= 2 else "?"
                    return f"{tag}{'S' if e.slice.value == 0 else 'E'}(FromOp({args}))"
                if isinstance(fn, ast.Attribute) and fn.attr == "exitLoop":
                    return "breaks" if e.slice.value == 0 else "continues"
                return f"{tag}{'S' if e.slice.value == 0 else 'E'}(call:{child_text(c)})"
        if isinstance(e, ast.Call) and isinstance(e.func, ast.Name) and e.func.id == "$each":
            inner = self._one(e.args[0])
            if inner in ("breaks", "continues"):
                return "each:" + inner
            return f"{tag}each:{inner}"
        return f"{tag}expr:{child_text(e)}"

    def _op(self, e: ast.AST) -> str:
        k = _site_of(e)
        if k is not None and k in self.res.sites:
            e = self.res.sites[k]
        return op_text(e)


def guard_text(res: Result, guards) -> List[str]:
    out = []
    for g, pol in guards:
        t = child_text(g)
        out.append(("" if pol else "not ") + t)
    return out


def extract(res: Result) -> Dict[str, list]:
    """returns {'edges': [(srcs, kind, dsts, guards, where)], 'rets': [(starts, ends, guards)],
    'regs': [...], 'order': [...], 'blocks': {site: desc}}"""
    R = Roles(res)
    edges, rets, regs = [], [], []
    teal_idx, enter_idx, exit_idx = [], [], []
    for i, ev in enumerate(res.events):
        sh = ev.short
        if sh in EDGE_METHODS and isinstance(ev.call.func, ast.Attribute) and len(ev.call.args) == 1:
            srcs = R.role(ev.call.func.value)
            dsts = R.role(ev.call.args[0])
            edges.append((srcs, EDGE_METHODS[sh], dsts, guard_text(res, ev.guards), ev.where))
        elif sh in ("addLoopBreakBlock", "addLoopContinueBlock") and len(ev.call.args) == 1:
            regs.append(("break" if "Break" in sh else "continue", R.role(ev.call.args[0]), guard_text(res, ev.guards), ev.where))
        elif sh == "__teal__":
            teal_idx.append(i)
        elif sh == "enterLoop":
            enter_idx.append(i)
        elif sh == "exitLoop":
            exit_idx.append(i)
    for val, guards in res.returns:
        for a in alts(val):
            if isinstance(a, ast.Tuple) and len(a.elts) == 2:
                rets.append((R.role(a.elts[0]), R.role(a.elts[1]), guard_text(res, guards)))
            else:
                k = _site_of(a)
                if k is not None and k in res.sites:
                    c = res.sites[k]
                    rets.append(({R._one(ast.Subscript(value=a, slice=ast.Constant(value=0), ctx=ast.Load()))}, {R._one(ast.Subscript(value=a, slice=ast.Constant(value=1), ctx=ast.Load()))}, guard_text(res, guards)))
                else:
                    rets.append(({"expr:" + child_text(a)}, {"expr:" + child_text(a)}, guard_text(res, guards)))
    order = []
    # aliasing: the end block of a child lowered inside a loop may itself be a registered
    # break/continue block (a body ending in Break()); the later write to .nextBlock wins, so the
    # children's fall-through edges must be written before the break/continue edges
    child_edge_idx = [i for i, ev in enumerate(res.events) if ev.short in EDGE_METHODS and isinstance(ev.call.func, ast.Attribute) and any(r.startswith("E(") for r in R.role(ev.call.func.value))]
    exit_edge_idx = [i for i, ev in enumerate(res.events) if ev.short in EDGE_METHODS and isinstance(ev.call.func, ast.Attribute) and any(r.startswith("each:") for r in R.role(ev.call.func.value))]
    if child_edge_idx and exit_edge_idx:
        order.append(("fallthrough-before-break-continue", max(child_edge_idx) < min(exit_edge_idx)))
    if enter_idx or exit_idx:
        order.append(("enter-before-children", bool(enter_idx) and all(enter_idx[0] < t for t in teal_idx)))
        order.append(("exit-after-children", bool(exit_idx) and all(exit_idx[0] > t for t in teal_idx)))
        order.append(("one-enter-one-exit", len(enter_idx) == 1 and len(exit_idx) == 1))
    return {"edges": edges, "rets": rets, "regs": regs, "order": order, "blocks": dict(R.new_blocks)}


# ---------------------------------------------------------------------------- comparison
def _active(guards: List[str], scenario: Dict[str, bool]) -> bool:
    for g in guards:
        pol = not g.startswith("not ")
        atom = g[4:] if not pol else g
        for pat, want in scenario.items():
            if re.fullmatch(pat, atom):
                if pol != want:
                    return False
    return True


def flatten(facts: Dict[str, list], scenario: Dict[str, bool]) -> Set[tuple]:
    """set of ground facts active in the scenario; None sources dropped"""
    out: Set[tuple] = set()
    for srcs, kind, dsts, guards, _w in facts["edges"]:
        if not _active(guards, scenario):
            continue
        for s in srcs:
            if s == "None":
                continue
            for d in dsts:
                out.add((s, kind, d))
    for starts, ends, guards in facts["rets"]:
        if not _active(guards, scenario):
            continue
        for s in starts:
            if s == "None":
                continue
            for e in ends:
                if e == "None":
                    continue
                out.add(("ret", s, e))
    for kind, roles, guards, _w in facts["regs"]:
        if not _active(guards, scenario):
            continue
        for r in roles:
            out.add(("reg", kind, r))
    for name, ok in facts["order"]:
        out.add(("order", name, str(ok)))
    return out


_SITE = re.compile(r"#(\d+)")


def canon_match(actual: Set[tuple], reference: Set[tuple]) -> Tuple[bool, Set[tuple], Set[tuple], Set[tuple]]:
    """The reference names new blocks 'N[ops]#a', 'C#a' ...; the actual facts name them '#<site>'.
    Find a bijection between site ids and letters (same descriptor) under which the two sets are
    equal.  Returns (ok, missing, extra, actual_renamed)."""

    def ids(facts):
        found: Dict[str, Set[str]] = {}
        for f in facts:
            for part in f:
                for m in re.finditer(r"((?:N\[[^\]]*\]|C))#(\w+)", part):
                    found.setdefault(m.group(1), set()).add(m.group(2))
        return found

    a_ids, r_ids = ids(actual), ids(reference)
    descs = sorted(set(a_ids) | set(r_ids))
    best = None
    choices = []
    for d in descs:
        A, Rr = sorted(a_ids.get(d, ())), sorted(r_ids.get(d, ()))
        # pad to allow unequal counts (mismatch will show up as missing/extra)
        if len(A) > 6 or len(Rr) > 6:
            perms = [tuple(Rr)]
        else:
            perms = list(itertools.permutations(Rr, min(len(A), len(Rr)))) or [()]
        choices.append((d, A, perms))
    for combo in itertools.product(*[c[2] for c in choices]) if choices else [()]:
        mapping = {}
        for (d, A, _), perm in zip(choices, combo):
            for a, r in zip(A, perm):
                mapping[(d, a)] = r
        renamed = set()
        for f in actual:
            parts = []
            for part in f:
                def rep(m):
                    key = (m.group(1), m.group(2))
                    return f"{m.group(1)}#{mapping.get(key, 'x' + m.group(2))}"
                parts.append(re.sub(r"((?:N\[[^\]]*\]|C))#(\w+)", rep, part))
            renamed.add(tuple(parts))
        missing, extra = reference - renamed, renamed - reference
        score = len(missing) + len(extra)
        if best is None or score < best[0]:
            best = (score, missing, extra, renamed)
        if score == 0:
            break
    assert best is not None
    return best[0] == 0, best[1], best[2], best[3]
