"""Resolution of `<EnumClass>.<member>.<attr>` / `.<method>()` / `.value` expressions by partial
evaluation of the enum's own __init__ on the member's literal tuple."""
from __future__ import annotations

import ast
from typing import Dict, Optional, Tuple

from .astutil import u
from .model import ClassInfo, Model
from .pe import PE, Result, alts


class EnumResolver:
    def __init__(self, model: Model, pe: Optional[PE] = None):
        self.model = model
        self.pe = pe or PE(model)
        self._cache: Dict[Tuple[str, str], Optional[Dict[str, ast.AST]]] = {}

    def _enum_class(self, name: str) -> Optional[ClassInfo]:
        c = self.model.try_class(name)
        if c is None:
            return None
        if not any(b.split(".")[-1] in ("Enum", "IntEnum", "Flag") for b in c.base_exprs):
            return None
        return c

    def member_attrs(self, cname: str, member: str) -> Optional[Dict[str, ast.AST]]:
        key = (cname, member)
        if key in self._cache:
            return self._cache[key]
        c = self._enum_class(cname)
        out = None
        if c is not None and member in c.class_attrs:
            val = c.class_attrs[member]
            attrs: Dict[str, ast.AST] = {"value": val, "name": ast.Constant(value=member)}
            init = c.methods.get("__init__")
            if init is not None and isinstance(val, ast.Tuple):
                env = self.pe.bind(init, list(val.elts), [], True)
                res = self.pe.run(init, env, attrs=attrs, self_cls=c)
                attrs = res.attrs
                attrs.setdefault("value", val)
            out = attrs
        self._cache[key] = out
        return out

    def resolve(self, e: ast.AST) -> Optional[ast.AST]:
        """Enum.member.attr  |  Enum.member.method()  -> expression, else None"""
        if isinstance(e, ast.Call) and isinstance(e.func, ast.Attribute) and not e.args and not e.keywords:
            base = e.func.value
            if isinstance(base, ast.Attribute) and isinstance(base.value, ast.Name):
                attrs = self.member_attrs(base.value.id, base.attr)
                c = self._enum_class(base.value.id)
                if attrs is not None and c is not None:
                    m = self.model.resolve_method(c, e.func.attr)
                    if m is not None:
                        r = self.pe.run(m, {}, attrs=dict(attrs), self_cls=c)
                        rv = r.ret_value()
                        return rv
            return None
        if isinstance(e, ast.Attribute) and isinstance(e.value, ast.Attribute) and isinstance(e.value.value, ast.Name):
            attrs = self.member_attrs(e.value.value.id, e.value.attr)
            if attrs is not None and e.attr in attrs:
                return attrs[e.attr]
        return None

    def resolve_deep(self, e: ast.AST, res: Optional[Result] = None, depth: int = 0) -> ast.AST:
        """resolve through $v sites and enum member accesses, a few levels"""
        from .pe import _site_of

        for _ in range(4):
            k = _site_of(e)
            if k is not None and res is not None and k in res.sites:
                e = res.sites[k]
                continue
            r = self.resolve(e)
            if r is None:
                break
            e = r
        return e
