"""E3 - reference model of ARC-4 types (written from the ARC-4 specification), used as the oracle for
signature strings, static lengths, dynamic-ness and *layout classes* (two types have the same layout
class iff every value has the same encoding under both)."""
from __future__ import annotations

from typing import List, Tuple

# shapes: ("bool",) ("uint", bits) ("byte",) ("address",) ("string",) ("bytes_dyn",) ("bytes_static", n)
#         ("sarr", T, n) ("darr", T) ("tuple", (T...)) ("ntuple", clsname, (T...)) ("txn", kind) ("ref", kind)

TXN_KINDS = {"txn": "TransactionTypeSpec", "pay": "PaymentTransactionTypeSpec", "keyreg": "KeyRegisterTransactionTypeSpec", "acfg": "AssetConfigTransactionTypeSpec", "axfer": "AssetTransferTransactionTypeSpec", "afrz": "AssetFreezeTransactionTypeSpec", "appl": "ApplicationCallTransactionTypeSpec"}
REF_KINDS = {"account": "AccountTypeSpec", "application": "ApplicationTypeSpec", "asset": "AssetTypeSpec"}


def class_of(s) -> str:
    k = s[0]
    if k == "bool":
        return "BoolTypeSpec"
    if k == "uint":
        return f"Uint{s[1]}TypeSpec"
    if k == "byte":
        return "ByteTypeSpec"
    if k == "address":
        return "AddressTypeSpec"
    if k == "string":
        return "StringTypeSpec"
    if k == "bytes_dyn":
        return "DynamicBytesTypeSpec"
    if k == "bytes_static":
        return "StaticBytesTypeSpec"
    if k == "sarr":
        return "StaticArrayTypeSpec"
    if k == "darr":
        return "DynamicArrayTypeSpec"
    if k == "tuple":
        return "TupleTypeSpec"
    if k == "ntuple":
        return "NamedTupleTypeSpec"
    if k == "txn":
        return TXN_KINDS[s[1]]
    if k == "ref":
        return REF_KINDS[s[1]]
    raise ValueError(s)


def sig(s) -> str:
    k = s[0]
    if k == "bool":
        return "bool"
    if k == "uint":
        return f"uint{s[1]}"
    if k in ("byte", "address", "string"):
        return k
    if k == "bytes_dyn":
        return "byte[]"
    if k == "bytes_static":
        return f"byte[{s[1]}]"
    if k == "sarr":
        return f"{sig(s[1])}[{s[2]}]"
    if k == "darr":
        return f"{sig(s[1])}[]"
    if k in ("tuple", "ntuple"):
        return "(" + ",".join(sig(m) for m in s[-1]) + ")"
    if k in ("txn", "ref"):
        return s[1]
    raise ValueError(s)


def elem(s):
    k = s[0]
    if k in ("address", "string", "bytes_dyn", "bytes_static"):
        return ("byte",)
    if k in ("sarr", "darr"):
        return s[1]
    raise ValueError(s)


def members(s) -> Tuple:
    return tuple(s[-1])


def static_len(s) -> int:
    """number of elements of a static array / members of a tuple"""
    k = s[0]
    if k == "address":
        return 32
    if k == "bytes_static":
        return s[1]
    if k == "sarr":
        return s[2]
    if k in ("tuple", "ntuple"):
        return len(s[-1])
    raise ValueError(s)


def is_dynamic(s) -> bool:
    k = s[0]
    if k in ("string", "bytes_dyn", "darr"):
        return True
    if k in ("sarr",):
        return is_dynamic(s[1])
    if k in ("tuple", "ntuple"):
        return any(is_dynamic(m) for m in s[-1])
    return False


def layout(s):
    k = s[0]
    if k == "bool":
        return ("bool",)
    if k == "uint":
        return ("uint", s[1])
    if k == "byte":
        return ("uint", 8)
    if k == "address":
        return ("static", ("uint", 8), 32)
    if k == "bytes_static":
        return ("static", ("uint", 8), s[1])
    if k == "sarr":
        return ("static", layout(s[1]), s[2])
    if k in ("string", "bytes_dyn"):
        return ("dynamic", ("uint", 8))
    if k == "darr":
        return ("dynamic", layout(s[1]))
    if k in ("tuple", "ntuple"):
        return ("tuple", tuple(layout(m) for m in s[-1]))
    if k == "txn":
        return ("txn",)
    if k == "ref":
        return ("ref", s[1])
    raise ValueError(s)


def byte_len(s) -> int:
    """static byte length of a static type (bool counts as one byte when it stands alone)"""
    k = s[0]
    if k == "bool":
        return 1
    if k == "uint":
        return s[1] // 8
    if k == "byte":
        return 1
    if k == "address":
        return 32
    if k == "bytes_static":
        return s[1]
    if k == "sarr":
        if s[1] == ("bool",):
            return (s[2] + 7) // 8
        return s[2] * byte_len(s[1])
    if k in ("tuple", "ntuple"):
        return tuple_head_len(s[-1])
    if k == "ref":
        return 1  # ARC-4: account / asset / application arguments are encoded as a uint8 index into the foreign arrays
    raise ValueError(f"{s} is dynamic")


def tuple_head_len(ms) -> int:
    """head size of a tuple: static members inline (consecutive bools packed 8 per byte), dynamic members as 2-byte offsets"""
    n, i = 0, 0
    ms = list(ms)
    while i < len(ms):
        m = ms[i]
        if m == ("bool",):
            j = i
            while j < len(ms) and ms[j] == ("bool",):
                j += 1
            n += (j - i + 7) // 8
            i = j
            continue
        n += 2 if is_dynamic(m) else byte_len(m)
        i += 1
    return n


def tuple_positions(ms):
    """for each member: ('bit', byte offset, bit index within the run) | ('static', offset, length) | ('dynamic', head offset, index of next dynamic member or None)"""
    out, off, i = [], 0, 0
    ms = list(ms)
    while i < len(ms):
        m = ms[i]
        if m == ("bool",):
            j = i
            while j < len(ms) and ms[j] == ("bool",):
                out.append(("bit", off, j - i))
                j += 1
            off += (j - i + 7) // 8
            i = j
            continue
        if is_dynamic(m):
            nxt = next((k for k in range(i + 1, len(ms)) if is_dynamic(ms[k])), None)
            out.append(("dynamic", off, nxt))
            off += 2
        else:
            out.append(("static", off, byte_len(m)))
            off += byte_len(m)
        i += 1
    return out
