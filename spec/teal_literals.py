"""Reference semantics of TEAL literals, written from the assembler's grammar (go-algorand
data/transactions/logic/assembler.go), independent of PyTeal's helpers.

A TEAL source line is split into tokens at whitespace outside double-quoted strings; `//` outside a
string starts a comment; `;` outside a string separates statements (AVM >= 7 assemblers).
Inside a quoted string the escapes are  \\n \\r \\t \\\\ \\"  and \\xHH ; every other byte stands for
itself (the source file is UTF-8).
"""
from __future__ import annotations

import base64
import re
from typing import List, Optional, Tuple

ON_COMPLETION = {"NoOp": 0, "OptIn": 1, "CloseOut": 2, "ClearState": 3, "UpdateApplication": 4, "DeleteApplication": 5}
TXN_TYPES = {"unknown": 0, "pay": 1, "keyreg": 2, "acfg": 3, "axfer": 4, "afrz": 5, "appl": 6}
NAMED_INTS = {**ON_COMPLETION, **TXN_TYPES}


class LiteralError(Exception):
    pass


def decode_string_literal(tok: str) -> bytes:
    """bytes denoted by a double-quoted TEAL string token"""
    if len(tok) < 2 or tok[0] != '"' or tok[-1] != '"':
        raise LiteralError("not a quoted string")
    body = tok[1:-1]
    out = bytearray()
    i = 0
    while i < len(body):
        ch = body[i]
        if ch == '"':
            raise LiteralError("unescaped quote inside the string")
        if ch != "\\":
            out += ch.encode("utf-8")
            i += 1
            continue
        if i + 1 >= len(body):
            raise LiteralError("dangling backslash")
        e = body[i + 1]
        if e == "n":
            out.append(0x0A)
        elif e == "r":
            out.append(0x0D)
        elif e == "t":
            out.append(0x09)
        elif e == "\\":
            out.append(0x5C)
        elif e == '"':
            out.append(0x22)
        elif e == "x":
            hh = body[i + 2:i + 4]
            if len(hh) != 2 or not re.fullmatch(r"[0-9a-fA-F]{2}", hh):
                raise LiteralError("bad \\x escape")
            out.append(int(hh, 16))
            i += 4
            continue
        else:
            raise LiteralError(f"unsupported escape \\{e}")
        i += 2
    return bytes(out)


def split_line(line: str) -> List[str]:
    """tokens of one TEAL line (comment removed); raises if a quoted string is not closed on the line"""
    toks, cur, i, inq = [], "", 0, False
    while i < len(line):
        c = line[i]
        if inq:
            cur += c
            if c == "\\" and i + 1 < len(line):
                cur += line[i + 1]
                i += 2
                continue
            if c == '"':
                inq = False
            i += 1
            continue
        if c == '"':
            inq = True
            cur += c
        elif c in " \t":
            if cur:
                toks.append(cur)
                cur = ""
        elif c == "/" and line[i:i + 2] == "//" and not cur:
            break
        elif c == ";" and not cur:
            toks.append(";")
        else:
            cur += c
        i += 1
    if inq:
        raise LiteralError("string literal not closed on its line")
    if cur:
        toks.append(cur)
    return toks


def is_single_token(text: str) -> bool:
    """text occupies exactly one token of one line (no line break, no comment start, no separator)"""
    if "\n" in text or "\r" in text:
        return False
    try:
        return split_line("byte " + text) == ["byte", text]
    except LiteralError:
        return False


_B32 = re.compile(r"[A-Z2-7]*")
_B64 = re.compile(r"[A-Za-z0-9+/]*")


def valid_b32(s: str) -> bool:
    """RFC 4648 base32, padding optional (all or none), as the assembler's base32 decoder accepts"""
    body = s.rstrip("=")
    pad = len(s) - len(body)
    if not _B32.fullmatch(body):
        return False
    rem = len(body) % 8
    if rem in (1, 3, 6):
        return False
    need = {0: 0, 2: 6, 4: 4, 5: 3, 7: 1}[rem]
    return pad in (0, need)


def decode_b32(s: str) -> bytes:
    body = s.rstrip("=")
    return base64.b32decode(body + "=" * ((8 - len(body) % 8) % 8))


def valid_b64(s: str) -> bool:
    """RFC 4648 base64 with canonical padding"""
    if len(s) % 4:
        return False
    body = s.rstrip("=")
    pad = len(s) - len(body)
    return bool(_B64.fullmatch(body)) and pad <= 2 and (pad == 0 or len(body) % 4 == 4 - pad)


def valid_b16(s: str) -> bool:
    return len(s) % 2 == 0 and re.fullmatch(r"[0-9a-fA-F]*", s) is not None


def decode_byte_arg(arg: str):
    """value of the argument of a `byte` pseudo-op: bytes, or the template name"""
    if arg.startswith("TMPL_"):
        return arg
    if arg.startswith('"'):
        return decode_string_literal(arg)
    if arg.startswith("0x"):
        if not valid_b16(arg[2:]):
            raise LiteralError("bad hex")
        return bytes.fromhex(arg[2:])
    m = re.fullmatch(r"(?:base32|b32)\((.*)\)", arg)
    if m:
        if not valid_b32(m.group(1)):
            raise LiteralError("bad base32")
        return decode_b32(m.group(1))
    m = re.fullmatch(r"(?:base64|b64)\((.*)\)", arg)
    if m:
        if not valid_b64(m.group(1)):
            raise LiteralError("bad base64")
        return base64.b64decode(m.group(1))
    raise LiteralError(f"unknown byte literal form {arg!r}")


def decode_int_arg(arg):
    if isinstance(arg, int) and not isinstance(arg, bool):
        if not 0 <= arg < 2**64:
            raise LiteralError("int out of range")
        return arg
    if isinstance(arg, str):
        if arg.startswith("TMPL_"):
            return arg
        if arg in NAMED_INTS:
            return NAMED_INTS[arg]
    raise LiteralError(f"unknown int literal {arg!r}")
