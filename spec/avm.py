"""E3 - reference AVM tables, written from the AVM specification (TEAL langspec, versions 1-11).

This is an independent description of the *target*; it is not derived from PyTeal's tables.
Types: 'u' uint64, 'b' bytes, 'a' any.  Modes: 'SA' both, 'A' application only, 'S' signature
only (mode as of the newest version: PyTeal does not model per-version mode changes).
Immediate kinds: u8 (0..255), i8 (-128..127), u64, bytes, label, field:<group>, ints (list),
byteses (list).
PyTeal targets program versions >= 2, so version-1 ops are compared as max(v, 2).
"""

U8 = ("u8", 0, 255)
I8 = ("i8", -128, 127)
U64 = ("u64", 0, 2**64 - 1)


def _op(v, modes, imm, pops, pushes, flags=()):
    return {"v": v, "modes": modes, "imm": list(imm), "pops": list(pops), "pushes": list(pushes), "flags": set(flags)}


OPS = {
    # ---- v1
    "err": _op(1, "SA", [], "", "", ["terminal"]),
    "sha256": _op(1, "SA", [], "b", "b"),
    "keccak256": _op(1, "SA", [], "b", "b"),
    "sha512_256": _op(1, "SA", [], "b", "b"),
    "ed25519verify": _op(1, "SA", [], "bbb", "u"),
    "+": _op(1, "SA", [], "uu", "u", ["traps"]),
    "-": _op(1, "SA", [], "uu", "u", ["traps"]),
    "/": _op(1, "SA", [], "uu", "u", ["traps"]),
    "*": _op(1, "SA", [], "uu", "u", ["traps"]),
    "<": _op(1, "SA", [], "uu", "u"),
    ">": _op(1, "SA", [], "uu", "u"),
    "<=": _op(1, "SA", [], "uu", "u"),
    ">=": _op(1, "SA", [], "uu", "u"),
    "&&": _op(1, "SA", [], "uu", "u"),
    "||": _op(1, "SA", [], "uu", "u"),
    "==": _op(1, "SA", [], "aa", "u", ["same-type"]),
    "!=": _op(1, "SA", [], "aa", "u", ["same-type"]),
    "!": _op(1, "SA", [], "u", "u"),
    "len": _op(1, "SA", [], "b", "u"),
    "itob": _op(1, "SA", [], "u", "b"),
    "btoi": _op(1, "SA", [], "b", "u"),
    "%": _op(1, "SA", [], "uu", "u", ["traps"]),
    "|": _op(1, "SA", [], "uu", "u"),
    "&": _op(1, "SA", [], "uu", "u"),
    "^": _op(1, "SA", [], "uu", "u"),
    "~": _op(1, "SA", [], "u", "u"),
    "mulw": _op(1, "SA", [], "uu", "uu"),
    "intcblock": _op(1, "SA", ["ints"], "", ""),
    "intc": _op(1, "SA", [U8], "", "u"),
    "intc_0": _op(1, "SA", [], "", "u"),
    "intc_1": _op(1, "SA", [], "", "u"),
    "intc_2": _op(1, "SA", [], "", "u"),
    "intc_3": _op(1, "SA", [], "", "u"),
    "bytecblock": _op(1, "SA", ["byteses"], "", ""),
    "bytec": _op(1, "SA", [U8], "", "b"),
    "bytec_0": _op(1, "SA", [], "", "b"),
    "bytec_1": _op(1, "SA", [], "", "b"),
    "bytec_2": _op(1, "SA", [], "", "b"),
    "bytec_3": _op(1, "SA", [], "", "b"),
    "arg": _op(1, "S", [U8], "", "b"),
    "txn": _op(1, "SA", ["field:txn"], "", "a"),
    "global": _op(1, "SA", ["field:global"], "", "a"),
    "gtxn": _op(1, "SA", [U8, "field:txn"], "", "a"),
    "load": _op(1, "SA", [U8], "", "a"),
    "store": _op(1, "SA", [U8], "a", ""),
    "bnz": _op(1, "SA", ["label"], "u", ""),
    "pop": _op(1, "SA", [], "a", ""),
    "dup": _op(1, "SA", [], "a", "aa"),
    # pseudo-ops of the assembler (constant loading)
    "int": _op(1, "SA", [U64], "", "u", ["pseudo"]),
    "byte": _op(1, "SA", ["bytes"], "", "b", ["pseudo"]),
    "addr": _op(1, "SA", ["bytes"], "", "b", ["pseudo"]),
    "method": _op(1, "SA", ["bytes"], "", "b", ["pseudo"]),
    # ---- v2
    "addw": _op(2, "SA", [], "uu", "uu"),
    "txna": _op(2, "SA", ["field:txna", U8], "", "a"),
    "gtxna": _op(2, "SA", [U8, "field:txna", U8], "", "a"),
    "bz": _op(2, "SA", ["label"], "u", ""),
    "b": _op(2, "SA", ["label"], "", "", ["jump"]),
    "return": _op(2, "SA", [], "u", "", ["terminal"]),
    "dup2": _op(2, "SA", [], "aa", "aaaa"),
    "concat": _op(2, "SA", [], "bb", "b", ["traps"]),
    "substring": _op(2, "SA", [U8, U8], "b", "b", ["traps"]),
    "substring3": _op(2, "SA", [], "buu", "b", ["traps"]),
    "balance": _op(2, "A", [], "a", "u"),
    "app_opted_in": _op(2, "A", [], "au", "u"),
    "app_local_get": _op(2, "A", [], "ab", "a"),
    "app_local_get_ex": _op(2, "A", [], "aub", "au"),
    "app_global_get": _op(2, "A", [], "b", "a"),
    "app_global_get_ex": _op(2, "A", [], "ub", "au"),
    "app_local_put": _op(2, "A", [], "aba", ""),
    "app_global_put": _op(2, "A", [], "ba", ""),
    "app_local_del": _op(2, "A", [], "ab", ""),
    "app_global_del": _op(2, "A", [], "b", ""),
    "asset_holding_get": _op(2, "A", ["field:asset_holding"], "au", "au"),
    "asset_params_get": _op(2, "A", ["field:asset_params"], "u", "au"),
    # ---- v3
    "gtxns": _op(3, "SA", ["field:txn"], "u", "a"),
    "gtxnsa": _op(3, "SA", ["field:txna", U8], "u", "a"),
    "assert": _op(3, "SA", [], "u", "", ["traps"]),
    "dig": _op(3, "SA", [U8], "", "a", ["stack"]),
    "swap": _op(3, "SA", [], "aa", "aa", ["stack"]),
    "select": _op(3, "SA", [], "aau", "a"),
    "getbit": _op(3, "SA", [], "au", "u"),
    "setbit": _op(3, "SA", [], "auu", "a"),
    "getbyte": _op(3, "SA", [], "bu", "u"),
    "setbyte": _op(3, "SA", [], "buu", "b"),
    "min_balance": _op(3, "A", [], "a", "u"),
    "pushbytes": _op(3, "SA", ["bytes"], "", "b"),
    "pushint": _op(3, "SA", [U64], "", "u"),
    # ---- v4
    "shl": _op(4, "SA", [], "uu", "u"),
    "shr": _op(4, "SA", [], "uu", "u"),
    "sqrt": _op(4, "SA", [], "u", "u"),
    "bitlen": _op(4, "SA", [], "a", "u"),
    "exp": _op(4, "SA", [], "uu", "u", ["traps"]),
    "divmodw": _op(4, "SA", [], "uuuu", "uuuu", ["traps"]),
    "expw": _op(4, "SA", [], "uu", "uu", ["traps"]),
    "b+": _op(4, "SA", [], "bb", "b"),
    "b-": _op(4, "SA", [], "bb", "b"),
    "b/": _op(4, "SA", [], "bb", "b"),
    "b*": _op(4, "SA", [], "bb", "b"),
    "b<": _op(4, "SA", [], "bb", "u"),
    "b>": _op(4, "SA", [], "bb", "u"),
    "b<=": _op(4, "SA", [], "bb", "u"),
    "b>=": _op(4, "SA", [], "bb", "u"),
    "b==": _op(4, "SA", [], "bb", "u"),
    "b!=": _op(4, "SA", [], "bb", "u"),
    "b%": _op(4, "SA", [], "bb", "b"),
    "b|": _op(4, "SA", [], "bb", "b"),
    "b&": _op(4, "SA", [], "bb", "b"),
    "b^": _op(4, "SA", [], "bb", "b"),
    "b~": _op(4, "SA", [], "b", "b"),
    "bzero": _op(4, "SA", [], "u", "b"),
    "gload": _op(4, "A", [U8, U8], "", "a"),
    "gloads": _op(4, "A", [U8], "u", "a"),
    "gaid": _op(4, "A", [U8], "", "u"),
    "gaids": _op(4, "A", [], "u", "u"),
    "callsub": _op(4, "SA", ["label"], "", "", ["call"]),
    "retsub": _op(4, "SA", [], "", "", ["terminal"]),
    # ---- v5
    "ecdsa_verify": _op(5, "SA", ["field:ecdsa"], "bbbbb", "u"),
    "ecdsa_pk_decompress": _op(5, "SA", ["field:ecdsa"], "b", "bb"),
    "ecdsa_pk_recover": _op(5, "SA", ["field:ecdsa"], "bubb", "bb"),
    "loads": _op(5, "SA", [], "u", "a"),
    "stores": _op(5, "SA", [], "ua", ""),
    "cover": _op(5, "SA", [U8], "", "", ["stack"]),
    "uncover": _op(5, "SA", [U8], "", "", ["stack"]),
    "extract": _op(5, "SA", [U8, U8], "b", "b", ["traps"]),
    "extract3": _op(5, "SA", [], "buu", "b", ["traps"]),
    "extract_uint16": _op(5, "SA", [], "bu", "u", ["traps"]),
    "extract_uint32": _op(5, "SA", [], "bu", "u", ["traps"]),
    "extract_uint64": _op(5, "SA", [], "bu", "u", ["traps"]),
    "app_params_get": _op(5, "A", ["field:app_params"], "u", "au"),
    "log": _op(5, "A", [], "b", ""),
    "itxn_begin": _op(5, "A", [], "", ""),
    "itxn_field": _op(5, "A", ["field:itxn_field"], "a", ""),
    "itxn_submit": _op(5, "A", [], "", ""),
    "itxn": _op(5, "A", ["field:txn"], "", "a"),
    "itxna": _op(5, "A", ["field:txna", U8], "", "a"),
    "txnas": _op(5, "SA", ["field:txna"], "u", "a"),
    "gtxnas": _op(5, "SA", [U8, "field:txna"], "u", "a"),
    "gtxnsas": _op(5, "SA", ["field:txna"], "uu", "a"),
    "args": _op(5, "S", [], "u", "b"),
    # ---- v6
    "bsqrt": _op(6, "SA", [], "b", "b"),
    "divw": _op(6, "SA", [], "uuu", "u", ["traps"]),
    "itxn_next": _op(6, "A", [], "", ""),
    "itxnas": _op(6, "A", ["field:txna"], "u", "a"),
    "gitxn": _op(6, "A", [U8, "field:txn"], "", "a"),
    "gitxna": _op(6, "A", [U8, "field:txna", U8], "", "a"),
    "gitxnas": _op(6, "A", [U8, "field:txna"], "u", "a"),
    "gloadss": _op(6, "A", [], "uu", "a"),
    "acct_params_get": _op(6, "A", ["field:acct_params"], "a", "au"),
    # ---- v7
    "replace2": _op(7, "SA", [U8], "bb", "b", ["traps"]),
    "replace3": _op(7, "SA", [], "bub", "b", ["traps"]),
    "base64_decode": _op(7, "SA", ["field:base64"], "b", "b"),
    "json_ref": _op(7, "SA", ["field:json_ref"], "bb", "a"),
    "ed25519verify_bare": _op(7, "SA", [], "bbb", "u"),
    "sha3_256": _op(7, "SA", [], "b", "b"),
    "vrf_verify": _op(7, "SA", ["field:vrf"], "bbb", "bu"),
    "block": _op(7, "SA", ["field:block"], "u", "a"),
    # ---- v8
    "box_create": _op(8, "A", [], "bu", "u"),
    "box_extract": _op(8, "A", [], "buu", "b"),
    "box_replace": _op(8, "A", [], "bub", ""),
    "box_del": _op(8, "A", [], "b", "u"),
    "box_len": _op(8, "A", [], "b", "uu"),
    "box_get": _op(8, "A", [], "b", "bu"),
    "box_put": _op(8, "A", [], "bb", ""),
    "popn": _op(8, "SA", [U8], "", "", ["stack"]),
    "dupn": _op(8, "SA", [U8], "a", "a", ["stack"]),
    "bury": _op(8, "SA", [U8], "a", "", ["stack"]),
    "frame_dig": _op(8, "SA", [I8], "", "a", ["stack"]),
    "frame_bury": _op(8, "SA", [I8], "a", "", ["stack"]),
    "proto": _op(8, "SA", [U8, U8], "", ""),
    # ---- v10
    "box_splice": _op(10, "A", [], "buub", ""),
    "box_resize": _op(10, "A", [], "bu", ""),
    "ec_add": _op(10, "SA", ["field:ec"], "bb", "b"),
    "ec_scalar_mul": _op(10, "SA", ["field:ec"], "bb", "b"),
    "ec_pairing_check": _op(10, "SA", ["field:ec"], "bb", "u"),
    "ec_multi_scalar_mul": _op(10, "SA", ["field:ec"], "bb", "b"),
    "ec_subgroup_check": _op(10, "SA", ["field:ec"], "b", "u"),
    "ec_map_to": _op(10, "SA", ["field:ec"], "b", "b"),
    # ---- v11
    "mimc": _op(11, "SA", ["field:mimc"], "b", "b"),
    "voter_params_get": _op(11, "A", ["field:voter_params"], "a", "au"),
    "online_stake": _op(11, "A", [], "", "u"),
}

# ops that end a routine / never fall through
TERMINAL_OPS = {n for n, o in OPS.items() if "terminal" in o["flags"]}

MIN_PROGRAM_VERSION = 2  # PyTeal's minimum; v1 ops are clamped to it
MAX_AVM_VERSION = 11  # newest AVM version described by this table

NUM_SCRATCH_SLOTS = 256
MAX_GROUP_SIZE = 16
MAX_STACK_DEPTH = 1000

ON_COMPLETION = {"NoOp": 0, "OptIn": 1, "CloseOut": 2, "ClearState": 3, "UpdateApplication": 4, "DeleteApplication": 5}

TYPE_ENUM = {"unknown": 0, "pay": 1, "keyreg": 2, "acfg": 3, "axfer": 4, "afrz": 5, "appl": 6}

ABI_RETURN_PREFIX = bytes.fromhex("151f7c75")
METHOD_ARG_CUTOFF = 15  # ARC-4: a method takes at most 15 application arguments; the rest are tupled into the 15th


def type_letter(tealtype_name: str) -> str:
    return {"uint64": "u", "bytes": "b", "anytype": "a", "none": "-"}[tealtype_name]


# ------------------------------------------------------------------------------------------
# Field groups: name -> (type, min_version, is_array)

def _f(t, v, arr=False):
    return (t, v, arr)


TXN_FIELDS = {
    "Sender": _f("b", 1), "Fee": _f("u", 1), "FirstValid": _f("u", 1), "FirstValidTime": _f("u", 7),
    "LastValid": _f("u", 1), "Note": _f("b", 1), "Lease": _f("b", 1), "Receiver": _f("b", 1),
    "Amount": _f("u", 1), "CloseRemainderTo": _f("b", 1), "VotePK": _f("b", 1), "SelectionPK": _f("b", 1),
    "VoteFirst": _f("u", 1), "VoteLast": _f("u", 1), "VoteKeyDilution": _f("u", 1), "Type": _f("b", 1),
    "TypeEnum": _f("u", 1), "XferAsset": _f("u", 1), "AssetAmount": _f("u", 1), "AssetSender": _f("b", 1),
    "AssetReceiver": _f("b", 1), "AssetCloseTo": _f("b", 1), "GroupIndex": _f("u", 1), "TxID": _f("b", 1),
    "ApplicationID": _f("u", 2), "OnCompletion": _f("u", 2), "ApplicationArgs": _f("b", 2, True),
    "NumAppArgs": _f("u", 2), "Accounts": _f("b", 2, True), "NumAccounts": _f("u", 2),
    "ApprovalProgram": _f("b", 2), "ClearStateProgram": _f("b", 2), "RekeyTo": _f("b", 2),
    "ConfigAsset": _f("u", 2), "ConfigAssetTotal": _f("u", 2), "ConfigAssetDecimals": _f("u", 2),
    "ConfigAssetDefaultFrozen": _f("u", 2), "ConfigAssetUnitName": _f("b", 2), "ConfigAssetName": _f("b", 2),
    "ConfigAssetURL": _f("b", 2), "ConfigAssetMetadataHash": _f("b", 2), "ConfigAssetManager": _f("b", 2),
    "ConfigAssetReserve": _f("b", 2), "ConfigAssetFreeze": _f("b", 2), "ConfigAssetClawback": _f("b", 2),
    "FreezeAsset": _f("u", 2), "FreezeAssetAccount": _f("b", 2), "FreezeAssetFrozen": _f("u", 2),
    "Assets": _f("u", 3, True), "NumAssets": _f("u", 3), "Applications": _f("u", 3, True),
    "NumApplications": _f("u", 3), "GlobalNumUint": _f("u", 3), "GlobalNumByteSlice": _f("u", 3),
    "LocalNumUint": _f("u", 3), "LocalNumByteSlice": _f("u", 3), "ExtraProgramPages": _f("u", 4),
    "Nonparticipation": _f("u", 5), "Logs": _f("b", 5, True), "NumLogs": _f("u", 5),
    "CreatedAssetID": _f("u", 5), "CreatedApplicationID": _f("u", 5), "LastLog": _f("b", 6),
    "StateProofPK": _f("b", 6), "ApprovalProgramPages": _f("b", 7, True), "NumApprovalProgramPages": _f("u", 7),
    "ClearStateProgramPages": _f("b", 7, True), "NumClearStateProgramPages": _f("u", 7),
}

GLOBAL_FIELDS = {
    "MinTxnFee": _f("u", 1), "MinBalance": _f("u", 1), "MaxTxnLife": _f("u", 1), "ZeroAddress": _f("b", 1),
    "GroupSize": _f("u", 1), "LogicSigVersion": _f("u", 2), "Round": _f("u", 2), "LatestTimestamp": _f("u", 2),
    "CurrentApplicationID": _f("u", 2), "CreatorAddress": _f("b", 3), "CurrentApplicationAddress": _f("b", 5),
    "GroupID": _f("b", 5), "OpcodeBudget": _f("u", 6), "CallerApplicationID": _f("u", 6),
    "CallerApplicationAddress": _f("b", 6), "AssetCreateMinBalance": _f("u", 10), "AssetOptInMinBalance": _f("u", 10),
    "GenesisHash": _f("b", 10), "PayoutsEnabled": _f("u", 11), "PayoutsGoOnlineFee": _f("u", 11),
    "PayoutsPercent": _f("u", 11), "PayoutsMinBalance": _f("u", 11), "PayoutsMaxBalance": _f("u", 11),
}

ASSET_HOLDING_FIELDS = {"AssetBalance": _f("u", 2), "AssetFrozen": _f("u", 2)}

ASSET_PARAMS_FIELDS = {
    "AssetTotal": _f("u", 2), "AssetDecimals": _f("u", 2), "AssetDefaultFrozen": _f("u", 2),
    "AssetUnitName": _f("b", 2), "AssetName": _f("b", 2), "AssetURL": _f("b", 2), "AssetMetadataHash": _f("b", 2),
    "AssetManager": _f("b", 2), "AssetReserve": _f("b", 2), "AssetFreeze": _f("b", 2), "AssetClawback": _f("b", 2),
    "AssetCreator": _f("b", 5),
}

APP_PARAMS_FIELDS = {
    "AppApprovalProgram": _f("b", 5), "AppClearStateProgram": _f("b", 5), "AppGlobalNumUint": _f("u", 5),
    "AppGlobalNumByteSlice": _f("u", 5), "AppLocalNumUint": _f("u", 5), "AppLocalNumByteSlice": _f("u", 5),
    "AppExtraProgramPages": _f("u", 5), "AppCreator": _f("b", 5), "AppAddress": _f("b", 5),
}

ACCT_PARAMS_FIELDS = {
    "AcctBalance": _f("u", 6), "AcctMinBalance": _f("u", 6), "AcctAuthAddr": _f("b", 6),
    "AcctTotalNumUint": _f("u", 8), "AcctTotalNumByteSlice": _f("u", 8), "AcctTotalExtraAppPages": _f("u", 8),
    "AcctTotalAppsCreated": _f("u", 8), "AcctTotalAppsOptedIn": _f("u", 8), "AcctTotalAssetsCreated": _f("u", 8),
    "AcctTotalAssets": _f("u", 8), "AcctTotalBoxes": _f("u", 8), "AcctTotalBoxBytes": _f("u", 8),
    "AcctIncentiveEligible": _f("u", 11), "AcctLastProposed": _f("u", 11), "AcctLastHeartbeat": _f("u", 11),
}

VOTER_PARAMS_FIELDS = {"VoterBalance": _f("u", 11), "VoterIncentiveEligible": _f("u", 11)}

BLOCK_FIELDS = {
    "BlkSeed": _f("b", 7), "BlkTimestamp": _f("u", 7), "BlkProposer": _f("b", 11), "BlkFeesCollected": _f("u", 11),
    "BlkBonus": _f("u", 11), "BlkBranch": _f("b", 11), "BlkFeeSink": _f("b", 11), "BlkProtocol": _f("b", 11),
    "BlkTxnCounter": _f("u", 11), "BlkProposerPayout": _f("u", 11),
}

JSON_REF_FIELDS = {"JSONString": _f("b", 7), "JSONUint64": _f("u", 7), "JSONObject": _f("b", 7)}
BASE64_FIELDS = {"URLEncoding": _f("-", 7), "StdEncoding": _f("-", 7)}
ECDSA_FIELDS = {"Secp256k1": _f("-", 5), "Secp256r1": _f("-", 7)}
EC_FIELDS = {"BN254g1": _f("-", 10), "BN254g2": _f("-", 10), "BLS12_381g1": _f("-", 10), "BLS12_381g2": _f("-", 10)}
VRF_FIELDS = {"VrfAlgorand": _f("-", 7)}
MIMC_FIELDS = {"BN254Mp110": _f("-", 11), "BLS12_381Mp111": _f("-", 11)}

# which PyTeal enum class carries which field group (class name -> table)
FIELD_ENUMS = {
    "TxnField": TXN_FIELDS,
    "GlobalField": GLOBAL_FIELDS,
    "AccountParamField": ACCT_PARAMS_FIELDS,
    "VoterParamField": VOTER_PARAMS_FIELDS,
    "BlockField": BLOCK_FIELDS,
    "JsonRefType": JSON_REF_FIELDS,
    "Base64Encoding": BASE64_FIELDS,
    "EcdsaCurve": ECDSA_FIELDS,
    "EllipticCurve": EC_FIELDS,
    "VrfVerifyStandard": VRF_FIELDS,
    "MimcConfig": MIMC_FIELDS,
}

# literal field immediates passed as strings: op -> table
LITERAL_FIELD_OPS = {
    "asset_holding_get": ASSET_HOLDING_FIELDS,
    "asset_params_get": ASSET_PARAMS_FIELDS,
    "app_params_get": APP_PARAMS_FIELDS,
}

# fields an inner transaction may set with itxn_field, with the version that allows it.
# (v5: pay/axfer/acfg/afrz headers; v6: keyreg + appl fields; v7: program pages handled via
# ApprovalProgramPages; RekeyTo/Note v6.)  Rows are 'unverified' (reported, not armed) unless listed.
ITXN_SETTABLE = {
    "Sender": 5, "Fee": 5, "Receiver": 5, "Amount": 5, "CloseRemainderTo": 5, "Type": 5, "TypeEnum": 5,
    "XferAsset": 5, "AssetAmount": 5, "AssetSender": 5, "AssetReceiver": 5, "AssetCloseTo": 5,
    "ConfigAsset": 5, "ConfigAssetTotal": 5, "ConfigAssetDecimals": 5, "ConfigAssetDefaultFrozen": 5,
    "ConfigAssetUnitName": 5, "ConfigAssetName": 5, "ConfigAssetURL": 5, "ConfigAssetMetadataHash": 5,
    "ConfigAssetManager": 5, "ConfigAssetReserve": 5, "ConfigAssetFreeze": 5, "ConfigAssetClawback": 5,
    "FreezeAsset": 5, "FreezeAssetAccount": 5, "FreezeAssetFrozen": 5,
    "Note": 6, "VotePK": 6, "SelectionPK": 6, "VoteFirst": 6, "VoteLast": 6, "VoteKeyDilution": 6,
    "Nonparticipation": 6, "StateProofPK": 6, "RekeyTo": 6,
    "ApplicationID": 6, "OnCompletion": 6, "ApplicationArgs": 6, "Accounts": 6, "ApprovalProgram": 6,
    "ClearStateProgram": 6, "Assets": 6, "Applications": 6, "GlobalNumUint": 6, "GlobalNumByteSlice": 6,
    "LocalNumUint": 6, "LocalNumByteSlice": 6, "ExtraProgramPages": 6,
    "ApprovalProgramPages": 7, "ClearStateProgramPages": 7,
}
