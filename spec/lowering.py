"""E3 - reference lowering of the control constructs as edge facts (DESIGN.md appendix A).

Derived from the documented semantics of each construct, not from the implementation.  Roles:
S(x)/E(x) start/end of the lowering of child x; N[ops]#id a fresh simple block holding `ops`;
C#id a fresh conditional block; prev:/last:/first: loop-carried values; each:breaks /
each:continues the blocks registered by Break / Continue in the loop being closed.
A scenario is {regex over guard atoms: truth value}; facts whose guards contradict it are inactive.
"""

ARGS = "each(self.args)"

CONSTRUCTS = {
    # ------------------------------------------------------------------ sequencing
    "Seq": {
        "func": ("Seq.__teal__", "pyteal.ast.seq"),
        "scenarios": [
            (
                "any",
                {},
                {
                    ("N[]#a", "next", f"S({ARGS})"),
                    (f"prev:E({ARGS})", "next", f"S({ARGS})"),
                    ("ret", "N[]#a", "N[]#a"),
                    ("ret", "N[]#a", f"last:E({ARGS})"),
                },
            )
        ],
        "doc": "an empty entry block, then every argument in order, each end chained to the next start; the result ends at the last argument",
    },
    # ------------------------------------------------------------------ If
    "If": {
        "func": ("If.__teal__", "pyteal.ast.if_"),
        "scenarios": [
            (
                "no-else",
                {r"self\.thenBranch is None": False, r"self\.elseBranch is None": True},
                {
                    ("E(self.cond)", "next", "C#a"),
                    ("C#a", "true", "S(self.thenBranch)"),
                    ("C#a", "false", "N[]#a"),
                    ("E(self.thenBranch)", "next", "N[]#a"),
                    ("ret", "S(self.cond)", "N[]#a"),
                },
            ),
            (
                "else",
                {r"self\.thenBranch is None": False, r"self\.elseBranch is None": False},
                {
                    ("E(self.cond)", "next", "C#a"),
                    ("C#a", "true", "S(self.thenBranch)"),
                    ("C#a", "false", "S(self.elseBranch)"),
                    ("E(self.thenBranch)", "next", "N[]#a"),
                    ("E(self.elseBranch)", "next", "N[]#a"),
                    ("ret", "S(self.cond)", "N[]#a"),
                },
            ),
        ],
        "doc": "condition, then a branch block: true -> then, false -> else (or the join); both arms fall into the join",
    },
    # ------------------------------------------------------------------ Cond
    "Cond": {
        "func": ("Cond.__teal__", "pyteal.ast.cond"),
        "scenarios": [
            (
                "any",
                {},
                {
                    (f"E({ARGS}[0])", "next", "C#a"),
                    ("C#a", "true", f"S({ARGS}[1])"),
                    (f"E({ARGS}[1])", "next", "N[]#a"),
                    ("prev:C#a", "false", f"S({ARGS}[0])"),
                    ("last:C#a", "false", "N[err]#a"),
                    ("ret", f"first:S({ARGS}[0])", "N[]#a"),
                },
            )
        ],
        "doc": "arm i: condition -> branch; true -> body_i -> join; false -> condition of arm i+1; false of the last arm -> err; entry is the first condition",
    },
    # ------------------------------------------------------------------ loops
    "While": {
        "func": ("While.__teal__", "pyteal.ast.while_"),
        "scenarios": [
            (
                "any",
                {r"self\.doBlock is None": False},
                {
                    ("E(self.cond)", "next", "C#a"),
                    ("C#a", "true", "S(self.doBlock)"),
                    ("C#a", "false", "N[]#a"),
                    ("E(self.doBlock)", "next", "S(self.cond)"),
                    ("each:breaks", "next", "N[]#a"),
                    ("each:continues", "next", "S(self.cond)"),
                    ("ret", "S(self.cond)", "N[]#a"),
                    ("order", "enter-before-children", "True"),
                    ("order", "exit-after-children", "True"),
                    ("order", "one-enter-one-exit", "True"),
                    ("order", "fallthrough-before-break-continue", "True"),
                },
            )
        ],
        "doc": "cond -> branch; true -> body -> cond; false -> exit; break -> exit; continue -> cond; the loop is entered before and left after lowering its children",
    },
    "For": {
        "func": ("For.__teal__", "pyteal.ast.for_"),
        "scenarios": [
            (
                "any",
                {r"self\.doBlock is None": False},
                {
                    ("E(self.start)", "next", "S(self.cond)"),
                    ("E(self.cond)", "next", "C#a"),
                    ("C#a", "true", "S(self.doBlock)"),
                    ("C#a", "false", "N[]#a"),
                    ("E(self.doBlock)", "next", "S(self.step)"),
                    ("E(self.step)", "next", "S(self.cond)"),
                    ("each:breaks", "next", "N[]#a"),
                    ("each:continues", "next", "S(self.step)"),
                    ("ret", "S(self.start)", "N[]#a"),
                    ("order", "enter-before-children", "True"),
                    ("order", "exit-after-children", "True"),
                    ("order", "one-enter-one-exit", "True"),
                    ("order", "fallthrough-before-break-continue", "True"),
                },
            )
        ],
        "doc": "start -> cond -> branch; true -> body -> step -> cond; false -> exit; break -> exit; continue -> step",
    },
    "Break": {
        "func": ("Break.__teal__", "pyteal.ast.break_"),
        "scenarios": [("in-loop", {}, {("ret", "N[]#a", "N[]#a"), ("reg", "break", "N[]#a")})],
        "doc": "a fresh empty block registered as a break block of the innermost loop",
    },
    "Continue": {
        "func": ("Continue.__teal__", "pyteal.ast.continue_"),
        "scenarios": [("in-loop", {}, {("ret", "N[]#a", "N[]#a"), ("reg", "continue", "N[]#a")})],
        "doc": "a fresh empty block registered as a continue block of the innermost loop",
    },
    # ------------------------------------------------------------------ Assert
    "Assert": {
        "func": ("Assert.__teal__", "pyteal.ast.assert_"),
        "scenarios": [
            (
                "v2-fallback",
                {r"len\(self\.cond\) > 1": False, r"options\.version >= Op\.assert_\.min_version": False},
                {
                    ("E(self.cond[0])", "next", "C#a"),
                    ("C#a", "true", "N[]#a"),
                    ("C#a", "false", "N[err]#a"),
                    ("ret", "S(self.cond[0])", "N[]#a"),
                },
            ),
        ],
        "doc": "below the version of `assert`: cond -> branch; true -> join; false -> err",
    },
    # ------------------------------------------------------------------ op expressions
    "FromOp": {
        "func": ("TealBlock.FromOp", "pyteal.ir.tealblock"),
        "scenarios": [
            ("no-args", {r"len\(\*args\) == 0": True}, {("ret", "N[?$p_op]#a", "N[?$p_op]#a")}),
            (
                "args",
                {r"len\(\*args\) == 0": False},
                {
                    ("prev:E(each(*args))", "next", "S(each(*args))"),
                    ("last:E(each(*args))", "next", "N[?$p_op]#a"),
                    ("ret", "first:S(each(*args))", "N[?$p_op]#a"),
                },
            ),
        ],
        "doc": "arguments lowered left to right, each end chained to the next start, the op block last; entry is the first argument",
    },
    "NaryExpr": {
        "func": ("NaryExpr.__teal__", "pyteal.ast.naryexpr"),
        "scenarios": [
            (
                "any",
                {},
                {
                    (f"first:E({ARGS})", "next", f"S({ARGS})"),
                    (f"prev:N[self.op]#a", "next", f"S({ARGS})"),
                    (f"E({ARGS})", "next", "N[self.op]#a"),
                    ("ret", f"first:S({ARGS})", f"first:E({ARGS})"),
                    ("ret", f"first:S({ARGS})", "last:N[self.op]#a"),
                },
            )
        ],
        "doc": "a1, a2, op, a3, op, ...: the op block follows every argument from the second on",
    },
    "MultiValue": {
        "func": ("MultiValue.__teal__", "pyteal.ast.multi"),
        "scenarios": [
            (
                "any",
                {},
                {
                    ("E(FromOp(self.op *self.immediate_args, *self.args))", "next", "S(new:each(reversed(self.output_slots)).store())"),
                    ("prev:E(new:each(reversed(self.output_slots)).store())", "next", "S(new:each(reversed(self.output_slots)).store())"),
                    ("ret", "S(FromOp(self.op *self.immediate_args, *self.args))", "E(FromOp(self.op *self.immediate_args, *self.args))"),
                    ("ret", "S(FromOp(self.op *self.immediate_args, *self.args))", "last:E(new:each(reversed(self.output_slots)).store())"),
                },
            )
        ],
        "doc": "the op over its arguments, then one stack store per output slot in reverse slot order (top of stack is the last output)",
    },
    "SuffixExpr": {
        "func": ("SuffixExpr.__teal__", "pyteal.ast.substring"),
        "scenarios": [
            (
                "substring3",
                {r".*== Op\.extract": False},
                {
                    ("E(self.stringArg)", "next", "S(self.startArg)"),
                    ("E(self.startArg)", "next", "N[dig 1; len; substring3]#a"),
                    ("ret", "S(self.stringArg)", "N[dig 1; len; substring3]#a"),
                },
            )
        ],
        "doc": "string, start, then dig 1; len; substring3",
    },
}
